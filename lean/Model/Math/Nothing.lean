/-
benchmath/anone.go — AssumeNothing.

Summary: `medianCI(n, confidence)` is moremath's `QuantileCI(n, 0.5, confidence)` (outside
/repo): its result — the two 1-based order statistics and the reported confidence — is DATA
(`QCI`). `QuantileCIResult.SampleCI` then reads the median with `Sample.Quantile(0.5)` (R8
interpolation; the position 1/3 + 0.5·(N + 1/3) is computed in float64 here exactly as the Go
code does) and the interval ends from the sorted values, −Inf/+Inf when the order statistic
lies outside the sample; an infinite end raises the "need N samples" warning, N found by
`medianSamplesAbove(confidence, len)` (the least size above the one at hand with a finite interval)
from the same external function at n = 2..50 (DATA: `needTab`).

Compare: three calls of moremath's `MannWhitneyUTest` (two-sided, and the two one-sided
"less" calls) are DATA (`UExt`); the code combines them as min(1, 2·min(l1, l2)), takes α
from the first sample's thresholds and adds the small-sample warning via `uTestMinP`.
-/
import Model.Math.Sample

namespace Math.Nothing
open Math

/-- the float64 constant `1/3.0` -/
def third : F64.Bits := 0x3FD5555555555555

/-- `n := 1/3.0 + q*(N+1/3.0)` for q = 0.5 (R8) -/
def quantilePos (N : Nat) : F64.Bits :=
  F64.add third (F64.mul half (F64.add (F64.ofInt N) third))

/-- `math.Modf` of a finite non-negative float: integer part (as the `int` k) and fraction -/
def modf (x : F64.Bits) : Nat × F64.Bits :=
  let nd := F64.toFrac (F64.mant x) (F64.expo x)
  let k := nd.1 / nd.2
  (k, F64.sub x (F64.ofInt k))

/-- moremath `Sample.Quantile(0.5)` on sorted unweighted values; `none` = empty sample (NaN in
Go; never reached from benchmath with a non-empty sample) -/
def quantileHalf {α : Type} [Val α] (xs : List α) : Option α :=
  match xs with
  | [] => none
  | x0 :: _ =>
    let kf := modf (quantilePos xs.length)
    if kf.1 == 0 then some x0
    else if kf.1 ≥ xs.length then xs.getLast?
    else
      match xs[kf.1 - 1]?, xs[kf.1]? with
      | some a, some b => some (Val.interp a b kf.2)
      | _, _ => none

/-- the part of `stats.QuantileCIResult` the code reads -/
structure QCI where
  loOrder : Nat
  hiOrder : Nat
  confidence : F64.Bits
  deriving Repr

/-- `QuantileCIResult.SampleCI`; `none` = the Go code panics (index out of range) -/
def sampleCI {α : Type} [Val α] (ci : QCI) (xs : List α) : Option (α × Ext α × Ext α) :=
  match quantileHalf xs with
  | none => none
  | some q =>
    let lo : Option (Ext α) :=
      if ci.loOrder < 1 then some .negInf else (xs[ci.loOrder - 1]?).map .fin
    let hi : Option (Ext α) :=
      if ci.hiOrder == 0 then none
      else if ci.hiOrder - 1 ≥ xs.length then some .posInf else (xs[ci.hiOrder - 1]?).map .fin
    match lo, hi with
    | some l, some h => some (q, l, h)
    | _, _ => none

/-- `medianSamplesAbove`: the least sample size n with max(2, have+1) ≤ n ≤ 50 whose interval is
finite; `needTab[i]` = (LoOrder, HiOrder) of `medianCI(i+2, confidence)` -/
def medianSamplesAbove (needTab : List (Nat × Nat)) (have_ : Nat) : Op × Nat :=
  match ((needTab.take 49).zipIdx 2).find?
      (fun e => decide (have_ < e.2) && decide (0 < e.1.1) && decide (e.1.2 ≤ e.2)) with
  | some e => (.ge, e.2)
  | none => (.gt, 50)

/-- `medianSamples` = `medianSamplesAbove(confidence, 0)` -/
def medianSamples (needTab : List (Nat × Nat)) : Op × Nat := medianSamplesAbove needTab 0

/-- `assumeNothing.Summary` -/
def summary {α : Type} [Val α] (s : Sample α) (confidence : F64.Bits) (ci : QCI)
    (needTab : List (Nat × Nat)) : Option (Summary α) :=
  match sampleCI ci s.values with
  | none => none
  | some (median, lo, hi) =>
    let warnings : List (SWarning α) :=
      if lo.isInf || hi.isInf then
        let on := medianSamplesAbove needTab s.values.length
        [.needCI on.1 on.2 confidence]
      else []
    some { center := median, lo := lo, hi := hi, confidence := ci.confidence, warnings := warnings }

/-- `uTestMinP[1..9]` (index 0 of the Go slice is unused) -/
def uTestMinP : List F64.Bits :=
  [0x3FF0000000000000, 0x3FD5555555555555, 0x3FB999999999999A, 0x3F9D41D41D41D41D, 0x3F80410410410410,
   0x3F61BB4A4046ED29, 0x3F43187758E9EBB6, 0x3F245E5D2BA42EA0, 0x3F0591175B628BB8]

/-- `uTestSamples` -/
def uTestSamples (alpha : F64.Bits) : Op × Nat :=
  match (uTestMinP.zipIdx 1).find? (fun e => F64.le e.1 alpha) with
  | some e => (.ge, e.2)
  | none => (.gt, uTestMinP.length + 1)

/-- the three external U-test calls -/
structure UExt where
  differs : TestResult
  less12 : TestResult
  less21 : TestResult
  deriving Repr

/-- the two-sided p-value the code forms -/
def combine (u : UExt) (pDiffers : F64.Bits) : F64.Bits :=
  match u.less12, u.less21 with
  | .ok l1, .ok l2 => fmin F64.one (F64.mul two (fmin l1 l2))
  | _, _ => pDiffers

/-- `hasNaN` -/
def hasNaN {α : Type} [Val α] (xs : List α) : Bool := xs.any Val.isNaN

/-- `assumeNothing.Compare`. Since fix F28 a sample containing NaN is not handed to the U-test
(whose rank computation does not terminate on NaN): P = 1 with the warning "sample contains NaN". -/
def compare {α : Type} [Val α] (s1 s2 : Sample α) (u : UExt) : Comparison :=
  let alpha := s1.thresholds.compareAlpha
  if hasNaN s1.values || hasNaN s2.values then
    { p := F64.one, n1 := s1.values.length, n2 := s2.values.length, alpha := alpha, warnings := [.err "err:nan"] }
  else
  match u.differs with
  | .err e =>
    { p := F64.one, n1 := s1.values.length, n2 := s2.values.length, alpha := alpha, warnings := [.err e] }
  | .ok pd =>
    let p := combine u pd
    let n1 := s1.values.length
    let n2 := s2.values.length
    let warnings : List CWarning :=
      if F64.lt alpha p then
        let on := uTestSamples alpha
        if n1 < on.2 && n2 < on.2 then [.needU on.1 on.2 alpha] else []
      else []
    { p := p, n1 := n1, n2 := n2, alpha := alpha, warnings := warnings }

end Math.Nothing
