/-
benchmath/sample.go — the renderers: `Summary.PctRangeString`, `Comparison.String`,
`Comparison.FormatDelta`, with float64 arithmetic (Model/Base/F64) and strconv 'f' formatting
(`F64.fmtFixed`) so that the output is byte-exact.
-/
import Model.Math.Sample

namespace Math.Render
open Math

def negOne : F64.Bits := 0xBFF0000000000000

/-- `mathx.Sign` -/
def sign (x : F64.Bits) : F64.Bits :=
  if F64.eq x F64.posZero then F64.posZero
  else if F64.lt x F64.posZero then negOne
  else if F64.lt F64.posZero x then F64.one
  else F64.nan

/-- `fmt.Sprintf("%.<prec>f", x)` (plus = false) / `"%+.<prec>f"` (plus = true) -/
def sprintfF (plus : Bool) (x : F64.Bits) (prec : Nat) : String :=
  if plus && !F64.signBit x && !F64.isInf x then "+" ++ F64.fmtFixed x prec else F64.fmtFixed x prec

/-- the value `PctRangeString` prints: `100 * math.Max(hi/center-1, 1-lo/center)` -/
def pctValue (s : FSummary) : F64.Bits :=
  F64.mul hundred (fmax (F64.sub (F64.div s.hi s.center) F64.one) (F64.sub F64.one (F64.div s.lo s.center)))

/-- `Summary.PctRangeString` -/
def pctRangeString (s : FSummary) : String :=
  if F64.isInf s.lo || F64.isInf s.hi then "∞"
  else if !F64.eq (sign s.center) (sign s.lo) || !F64.eq (sign s.center) (sign s.hi) then "?"
  else if F64.eq s.center F64.posZero then "0%"
  else sprintfF false (pctValue s) 0 ++ "%"

/-- `Comparison.String` -/
def comparisonString (c : Comparison) : String :=
  let s := if !F64.eq c.p F64.posZero then "p=" ++ sprintfF false c.p 3 ++ " " else ""
  if c.n1 == c.n2 then s ++ "n=" ++ toString c.n1
  else s ++ "n=" ++ toString c.n1 ++ "+" ++ toString c.n2

/-- the value `FormatDelta` prints: `((new / old) - 1.0) * 100.0` -/
def deltaValue (old new : F64.Bits) : F64.Bits :=
  F64.mul (F64.sub (F64.div new old) F64.one) hundred

/-- `Comparison.FormatDelta` -/
def formatDelta (c : Comparison) (old new : F64.Bits) : String :=
  if F64.lt c.alpha c.p then "~"
  else if F64.eq old new then "0.00%"
  else if F64.eq old F64.posZero then "?"
  else sprintfF true (deltaValue old new) 2 ++ "%"

end Math.Render
