/-
benchmath/anormal.go — AssumeNormal: the mean and its t interval come from moremath's
`Sample.MeanCI` (DATA), the reported confidence is the requested one; the comparison is
moremath's Welch t-test (DATA: an error or the p-value), with α from the first sample.
-/
import Model.Math.Sample

namespace Math.Normal
open Math

/-- result of `stats.Sample.MeanCI` -/
structure MeanCI where
  mean : F64.Bits
  lo : F64.Bits
  hi : F64.Bits

/-- `assumeNormal.Summary` -/
def summary (confidence : F64.Bits) (m : MeanCI) : FSummary :=
  { center := m.mean, lo := m.lo, hi := m.hi, confidence := confidence }

/-- `assumeNormal.Compare` -/
def compare {α : Type} (s1 s2 : Sample α) (w : TestResult) : Comparison :=
  let alpha := s1.thresholds.compareAlpha
  match w with
  | .err e => { p := F64.one, n1 := s1.values.length, n2 := s2.values.length, alpha := alpha, warnings := [.err e] }
  | .ok p => { p := p, n1 := s1.values.length, n2 := s2.values.length, alpha := alpha, warnings := [] }

end Math.Normal
