/-
Model of benchunit/parse.go: the unit tokenizer (`parser.next`) and `ClassOf`.
-/
import Model.Base.Utf8

namespace Unit.Parse
open Bytes

structure Tok where
  tok : Bytes
  pos : Nat        -- byte offset in the original unit
  denom : Bool
  deriving Repr, DecidableEq

def isSep (r : Nat) : Bool := r == 42 || r == 47 || r == 45 || Utf8.isSpace r   -- * / - space

/-- Consume separators (updating `denom`); returns the remaining bytes, bytes consumed and the
flag, or `none` at end of string. Fuel = length bound. -/
def skipSeps : Nat → Bytes → Nat → Bool → Option (Bytes × Nat × Bool)
  | 0, _, _, _ => none
  | _, [], _, _ => none
  | fuel + 1, b :: bs, off, denom =>
    let (r, w) := Utf8.decodeRune (b :: bs)
    if r == 42 then skipSeps fuel ((b :: bs).drop w) (off + w) false
    else if r == 47 then skipSeps fuel ((b :: bs).drop w) (off + w) true
    else if r == 45 || Utf8.isSpace r then skipSeps fuel ((b :: bs).drop w) (off + w) denom
    else some (b :: bs, off, denom)

/-- Consume until a separator; returns (token, rest). -/
def takeTok : Nat → Bytes → Bytes × Bytes
  | 0, bs => ([], bs)
  | _, [] => ([], [])
  | fuel + 1, b :: bs =>
    let (r, w) := Utf8.decodeRune (b :: bs)
    if isSep r then ([], b :: bs)
    else
      let (t, rest) := takeTok fuel ((b :: bs).drop w)
      ((b :: bs).take w ++ t, rest)

def tokensAux : Nat → Bytes → Nat → Bool → List Tok
  | 0, _, _, _ => []
  | fuel + 1, bs, off, denom =>
    match skipSeps (bs.length + 1) bs off denom with
    | none => []
    | some (rest, off', denom') =>
      let (t, rest') := takeTok (rest.length + 1) rest
      { tok := t, pos := off', denom := denom' } :: tokensAux fuel rest' (off' + t.length) denom'

def tokens (unit : Bytes) : List Tok := tokensAux (unit.length + 1) unit 0 false

inductive Class | decimal | binary
  deriving Repr, DecidableEq

def isBytesTok (t : Bytes) : Bool :=
  t == Bytes.ofString "B" || t == Bytes.ofString "MB" || t == Bytes.ofString "bytes"

def classOf (unit : Bytes) : Class :=
  if (tokens unit).any (fun t => isBytesTok t.tok && !t.denom) then .binary else .decimal

end Unit.Parse
