/-
The finite boundary table of C10: for every rounding threshold t of both prefix tables, the two
adjacent floats `pred t` and `t` print on the correct side of the digit-count boundary.
Everything here is Nat/Int/UInt64 arithmetic so that the kernel can evaluate it.
-/
import Model.Unit.Scale

namespace Unit.Scale

/-- predecessor of a positive finite float -/
def pred (t : F64.Bits) : F64.Bits := t - 1

/-- the integer whose digits `Format` prints for v with (factor, prec): round(v/factor · 10^prec) -/
def printedK (v factor : F64.Bits) (prec : Nat) : Nat := F64.fixedScaled (F64.div v factor) prec

/-- Row check. `lower`: the next smaller prefix (values just below t1 are printed with it, one
digit after the point) and the exclusive upper bound of its mantissa ×10 (10000 for SI, 10240 for IEC). -/
def rowOK (f : Factor) (lower : Option Factor) (topTimes10 : Nat) : Bool :=
  -- at t100 the mantissa prints as ≥ 100.0 with one digit; just below as < 100.00 with two
  (printedK f.t100 f.factor 1 ≥ 1000) && (printedK (pred f.t100) f.factor 2 < 10000) &&
  (printedK f.t10 f.factor 2 ≥ 1000) && (printedK (pred f.t10) f.factor 3 < 10000) &&
  (printedK f.t1 f.factor 3 ≥ 1000) &&
  (match lower with
   | some g => printedK (pred f.t1) g.factor 1 < topTimes10 && F64.lt g.t100 f.t1
   | none => true) &&
  -- thresholds are ordered within the row
  F64.lt f.t1 f.t10 && F64.lt f.t10 f.t100

def tableOK (topTimes10 : Nat) : List Factor → Bool
  | [] => true
  | [f] => rowOK f none topTimes10
  | f :: g :: rest => rowOK f (some g) topTimes10 && tableOK topTimes10 (g :: rest)

/-- below the smallest prefix: threshold i (on the quotient) switches from i+4 to i+3 decimals -/
def sigfigOK : List F64.Bits → Nat → Bool
  | [], _ => true
  | t :: ts, i =>
    (F64.fixedScaled t (i + ScaleFacts.sigfigsBase) ≥ 1000) &&
    (F64.fixedScaled (pred t) (i + ScaleFacts.sigfigsBase + 1) < 10000) && sigfigOK ts (i + 1)
where ScaleFacts.sigfigsBase := Generated.ScaleFacts.sigfigsBase

def boundaryOK : Bool :=
  tableOK 10000 siFactors && tableOK 10240 iecFactors && sigfigOK sigfigs 0

end Unit.Scale
