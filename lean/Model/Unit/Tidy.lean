/-
Model of benchunit/tidy.go (`Tidy`, `tidyUnit`, `tidyUnitUncached`), of the reader's decision rule
around `benchunit.Tidy` (benchfmt/reader.go, parseBenchmarkLine), of the unit metadata map keyed by
the tidied unit (benchfmt/reader.go parseUnitLine, benchfmt/units.go Get/GetAssumption/GetBetter)
and of the `.unit` filter term (benchproc/filter.go).

The tokenizer is `Unit.Parse.tokens` (model of `parser.next`, property C10, reused read-only).

caches_are_memo: `tidyCache` (a `sync.Map` from the unit string to the result of
`tidyUnitUncached`) only ever stores `tidyUnitUncached unit` under the key `unit`, so a hit returns
exactly what a miss computes; the model is the pure function. The correspondence run calls `Tidy`
twice per unit (miss, then hit) and compares.
-/
import Model.Base.F64
import Model.Unit.Parse

namespace Unit.Tidy
open Unit.Parse

/-! ### constants of tidy.go (hard-coded; the harness prints the real ones on `kind=consts`) -/

def sNs : Bytes := [110, 115]          -- "ns"
def sMB : Bytes := [77, 66]            -- "MB"
def sSec : Bytes := [115, 101, 99]     -- "sec"
def sB : Bytes := [66]                 -- "B"

def sNsOp : Bytes := [110, 115, 47, 111, 112]                    -- "ns/op"
def sSecOp : Bytes := [115, 101, 99, 47, 111, 112]               -- "sec/op"
def sMBs : Bytes := [77, 66, 47, 115]                            -- "MB/s"
def sBs : Bytes := [66, 47, 115]                                 -- "B/s"
def sBOp : Bytes := [66, 47, 111, 112]                           -- "B/op"
def sAllocsOp : Bytes := [97, 108, 108, 111, 99, 115, 47, 111, 112]  -- "allocs/op"

/-- float64(1e9) -/
def f1e9 : F64.Bits := 0x41CDCD6500000000
/-- float64(1e6) -/
def f1e6 : F64.Bits := 0x412E848000000000
/-- float64(1e-9), the constant of the "ns/op" fast path -/
def f1em9 : F64.Bits := 0x3E112E0BE826D695

/-! ### tidyUnitUncached -/

structure Edit where
  pos : Nat
  len : Nat
  replace : Bytes
  deriving Repr, DecidableEq

/-- The `for p.next()` loop: edits appended in token order, factor updated in token order
(`factor /= 1e9`, `factor *= 1e6`); denominator tokens are skipped. -/
def scan : List Tok → List Edit → F64.Bits → List Edit × F64.Bits
  | [], edits, factor => (edits, factor)
  | t :: ts, edits, factor =>
    if t.denom then scan ts edits factor
    else if t.tok == sNs then scan ts (edits ++ [⟨t.pos, sNs.length, sSec⟩]) (F64.div factor f1e9)
    else if t.tok == sMB then scan ts (edits ++ [⟨t.pos, sMB.length, sB⟩]) (F64.mul factor f1e6)
    else scan ts edits factor

/-- `unit[:e.pos] + e.replace + unit[e.pos+e.len:]`; `none` is the slice-bounds panic. -/
def applyEdit? (unit : Bytes) (e : Edit) : Option Bytes :=
  if e.pos + e.len ≤ unit.length then some (unit.take e.pos ++ e.replace ++ unit.drop (e.pos + e.len))
  else none

/-- `for i := len(edits)-1; i >= 0; i--` : the last edit is applied first. -/
def applyEdits? : List Edit → Bytes → Option Bytes
  | [], u => some u
  | e :: es, u => (applyEdits? es u).bind (applyEdit? · e)

/-- `tidyUnitUncached`; `none` would be a run-time panic (proved impossible: `C04.tidy_spec`). -/
def tidyUnitUncached? (unit : Bytes) : Option (Bytes × F64.Bits) :=
  let (edits, factor) := scan (tokens unit) [] F64.one
  (applyEdits? edits unit).map (·, factor)

def tidyUnitUncached (unit : Bytes) : Bytes × F64.Bits :=
  (tidyUnitUncached? unit).getD (unit, F64.one)

/-! ### tidyUnit: fast paths, substring pre-filter, (memoised) general path -/

/-- the `switch unit` fast-path table: unit ↦ (tidied, factor) -/
def fastTable : List (Bytes × Bytes × F64.Bits) :=
  [ (sNsOp, sSecOp, f1em9), (sMBs, sBs, f1e6), (sBOp, sBOp, F64.one), (sAllocsOp, sAllocsOp, F64.one) ]

def fastPath (unit : Bytes) : Option (Bytes × F64.Bits) :=
  (fastTable.find? (·.1 == unit)).map (·.2)

/-- `strings.Contains(unit, "ns") || strings.Contains(unit, "MB")` -/
def mayNeedTidy (unit : Bytes) : Bool := Bytes.contains unit sNs || Bytes.contains unit sMB

def tidyUnit (unit : Bytes) : Bytes × F64.Bits :=
  match fastPath unit with
  | some r => r
  | none =>
    if !mayNeedTidy unit then (unit, F64.one)
    else tidyUnitUncached unit

/-- `benchunit.Tidy(value, unit)`: `value * factor`. NaN results are the canonical NaN of the
F64 model (Go propagates the payload; every observer canonicalises NaN). -/
def tidy (value : F64.Bits) (unit : Bytes) : F64.Bits × Bytes :=
  let (newUnit, factor) := tidyUnit unit
  (F64.mul value factor, newUnit)

/-! ### benchfmt.Reader: the decision rule in parseBenchmarkLine -/

structure Value where
  value : F64.Bits
  unit : Bytes
  origValue : F64.Bits
  origUnit : Bytes
  deriving Repr, DecidableEq

/-- `tidyVal, tidyUnit := benchunit.Tidy(val, unit); if tidyUnit == unit {…} else {…}` -/
def readerValue (val : F64.Bits) (unit : Bytes) : Value :=
  let (tidyVal, tidyUnit) := tidy val unit
  if tidyUnit == unit then { value := val, unit := unit, origValue := 0, origUnit := [] }
  else { value := tidyVal, unit := tidyUnit, origValue := val, origUnit := unit }

/-! ### unit metadata: keyed by the tidied unit -/

structure Meta where
  unit : Bytes       -- tidied unit (map key, part 1)
  key : Bytes        -- metadata key (map key, part 2)
  origUnit : Bytes   -- unit as written on the `Unit` line
  value : Bytes
  deriving Repr, DecidableEq

/-- `UnitMetadataMap` as an association list (at most one entry per (unit, key)). -/
abbrev MetaMap := List Meta

def MetaMap.find (m : MetaMap) (unit key : Bytes) : Option Meta :=
  List.find? (fun e => e.unit == unit && e.key == key) m

/-- One `key=value` field of a `Unit <unit> …` line (parseUnitLine): the map key is built from the
tidied unit; an existing entry wins (same value: ignored, other value: syntax error). Returns the
new map and whether an error was reported. -/
def addMeta (m : MetaMap) (unit key value : Bytes) : MetaMap × Bool :=
  let tu := (tidy F64.one unit).2
  match m.find tu key with
  | some have_ => (m, have_.value != value)
  | none => (m ++ [⟨tu, key, unit, value⟩], false)

/-- `UnitMetadataMap.Get` -/
def get (m : MetaMap) (unit key : Bytes) : Option Meta :=
  m.find (tidy F64.one unit).2 key

def sAssume : Bytes := [97, 115, 115, 117, 109, 101]     -- "assume"
def sBetter : Bytes := [98, 101, 116, 116, 101, 114]     -- "better"
def sExact : Bytes := [101, 120, 97, 99, 116]            -- "exact"
def sHigher : Bytes := [104, 105, 103, 104, 101, 114]    -- "higher"
def sLower : Bytes := [108, 111, 119, 101, 114]          -- "lower"

/-- `GetAssumption`: true = AssumeExact, false = AssumeNothing -/
def getAssumption (m : MetaMap) (unit : Bytes) : Bool :=
  match get m unit sAssume with
  | some d => d.value == sExact
  | none => false

/-- `GetBetter`; the built-in defaults are keyed by the literal unit passed in. -/
def getBetter (m : MetaMap) (unit : Bytes) : Int :=
  match get m unit sBetter with
  | some b => if b.value == sHigher then 1 else if b.value == sLower then -1 else 0
  | none =>
    if unit == sNsOp || unit == sSecOp then -1
    else if unit == sMBs || unit == sBs then 1
    else if unit == sBOp || unit == sAllocsOp then -1
    else 0

/-! ### `.unit` filter term (benchproc/filter.go) -/

/-- `q.MatchString(v.Unit) || (v.OrigUnit != "" && q.MatchString(v.OrigUnit))` -/
def unitMatch (q : Bytes → Bool) (v : Value) : Bool :=
  q v.unit || (v.origUnit != [] && q v.origUnit)

end Unit.Tidy
