/-
Model of benchunit/scale.go: the prefix tables built exactly as the code builds them (by
parsing the printed thresholds — format strings, exponents and comparison operators come from
Generated/ScaleFacts.lean, re-extracted from the source on every run), CommonScale, Format.
-/
import Model.Base.DecText
import Generated.ScaleFacts

namespace Unit.Scale
open Generated

structure Factor where
  factor : F64.Bits
  prefix_ : String
  t100 : F64.Bits
  t10 : F64.Bits
  t1 : F64.Bits
  deriving Repr, DecidableEq

structure Scaler where
  prec : Int          -- -1 for the no-op scaler
  factor : F64.Bits
  prefix_ : String
  deriving Repr, DecidableEq

inductive Class | decimal | binary
  deriving Repr, DecidableEq

def showInt (i : Int) : String := if i < 0 then "-" ++ toString i.natAbs else toString i.natAbs

/-- A threshold `strconv.ParseFloat(fmt.Sprintf(format, off+exp))` in the numeric form the
extractor derives from the format string: mantissa · base^(exp + offset), correctly rounded. -/
def parseThreshold (isTwo : Bool) (mo : Nat × Int) (exp : Int) : F64.Bits :=
  if isTwo then F64.ofBinary false mo.1 (exp + mo.2) else F64.ofDecimal false mo.1 (exp + mo.2)

/-- `math.Pow(base, exp)` for base 10 or 2 and the small integer exponents used: correctly
rounded power (validated against the public `Scaler.Factor` by the correspondence run). -/
def powFactor (isTwo : Bool) (exp : Int) : F64.Bits :=
  if isTwo then F64.ofBinary false 1 exp else F64.ofDecimal false 1 exp

def mkFactors (prefixes : List String) (start step : Int) (thresh : List (Nat × Int)) (threshTwo : Bool)
    (baseTwo : Bool) : List Factor :=
  let rec go : List String → Int → List Factor
    | [], _ => []
    | p :: ps, exp =>
      let th (i : Nat) : F64.Bits := parseThreshold threshTwo (thresh.getD i (0, 0)) exp
      { factor := powFactor baseTwo exp, prefix_ := p, t100 := th 0, t10 := th 1, t1 := th 2 } :: go ps (exp - step)
  go prefixes start

def siFactors : List Factor :=
  mkFactors ScaleFacts.siPrefixes ScaleFacts.siExpStart ScaleFacts.siExpStep ScaleFacts.siThresh false
    ScaleFacts.siBaseIsTwo

def iecFactors : List Factor :=
  mkFactors ScaleFacts.iecPrefixes ScaleFacts.iecExpStart ScaleFacts.iecExpStep ScaleFacts.iecThresh true
    ScaleFacts.iecBaseIsTwo

/-- thresholds for 3, 4, … digits after the decimal point below the smallest prefix -/
def sigfigs : List F64.Bits :=
  let n := (ScaleFacts.sigfigsExpStart - ScaleFacts.sigfigsExpEnd).toNat
  (List.range n).map fun (i : Nat) => parseThreshold false ScaleFacts.sigfigsThresh (ScaleFacts.sigfigsExpStart - Int.ofNat i)

def cmpOp (op : Nat) (a b : F64.Bits) : Bool :=
  match op with
  | 0 => F64.le b a
  | 1 => F64.lt b a
  | 2 => F64.le a b
  | 3 => F64.lt a b
  | _ => false

def thresholdOf (f : Factor) (field : Nat) : F64.Bits :=
  match field with
  | 0 => f.t100
  | 1 => f.t10
  | _ => f.t1

/-- the loop computing the smallest non-zero magnitude -/
def minNonZero (vals : List F64.Bits) : F64.Bits :=
  vals.foldl (fun min v =>
    let v := F64.abs v
    if !(F64.eq v F64.posZero) && (F64.eq min F64.posZero || F64.lt v min) then v else min) F64.posZero

def cascadeStep (min : F64.Bits) (f : Factor) : Option Scaler :=
  ScaleFacts.cascadeN.findSome? fun (op, field, prec) =>
    if cmpOp op min (thresholdOf f field) then some { prec := prec, factor := f.factor, prefix_ := f.prefix_ } else none

def fallback (min : F64.Bits) (f : Factor) : Scaler :=
  let val := F64.div min f.factor
  let n := sigfigs.length
  let rec go : List F64.Bits → Nat → Scaler
    | [], i => { prec := (i + ScaleFacts.sigfigsBase : Nat), factor := f.factor, prefix_ := f.prefix_ }
    | t :: ts, i =>
      if cmpOp ScaleFacts.fallbackCmpN val t || i == n - 1 then
        { prec := (i + ScaleFacts.sigfigsBase : Nat), factor := f.factor, prefix_ := f.prefix_ }
      else go ts (i + 1)
  go sigfigs 0

def commonScale (vals : List F64.Bits) (cls : Class) : Scaler :=
  let min := minNonZero vals
  if F64.eq min F64.posZero then { prec := 3, factor := F64.one, prefix_ := "" }
  else
    let factors := match cls with | .decimal => siFactors | .binary => iecFactors
    match factors.findSome? (cascadeStep min) with
    | some s => s
    | none =>
      match factors.getLast? with
      | some f => fallback min f
      | none => { prec := 3, factor := F64.one, prefix_ := "" }

/-- `Scaler.Format` for prec ≥ 0 -/
def format (s : Scaler) (v : F64.Bits) : String :=
  F64.fmtFixed (F64.div v s.factor) s.prec.toNat ++ s.prefix_

def scale (v : F64.Bits) (cls : Class) : String := format (commonScale [v] cls) v

end Unit.Scale
