/-
Model of the storage server's query language (property C19):
  storage/query/query.go   SplitWords
  storage/db/query.go      parseWord, part.merge, part.sql
  storage/db/db.go         parseQuery, Query (join of subselects), ListUploads
The SQL the code builds is represented structurally (`Sql`); its text (`Sql.text`, compared with the
real text by the correspondence run) and its relational meaning (`Sql.rows`) are given by hand.
Core Lean only.
-/
import Model.Base.Bytes

namespace Storage.Query
open Bytes

/-! ### Byte order: Go's string `<`, SQLite's BINARY collation (memcmp, shorter prefix first) -/

def blt : Bytes → Bytes → Bool
  | [], [] => false
  | [], _ :: _ => true
  | _ :: _, [] => false
  | a :: as, b :: bs => if a < b then true else if b < a then false else blt as bs

/-! ### query.SplitWords -/

def cQuote : UInt8 := 34
def cBackslash : UInt8 := 92
def cSpace : UInt8 := 32
def cTab : UInt8 := 9

/-- flush the current word (`if w > 0 { words = append(words, …) }`) -/
def flush (w : Bytes) (ws : List Bytes) : List Bytes := if w.isEmpty then ws else ws ++ [w]

/-- The loop of `SplitWords`: `quoting`, the word under construction `w`, the words so far `ws`,
the unread input. `r++` past the end of the input writes nothing. -/
def swGo : Bool → Bytes → List Bytes → Bytes → List Bytes
  | _, w, ws, [] => flush w ws
  | true, w, ws, c :: rest =>
    if c == cQuote then swGo false w ws rest
    else if c == cBackslash then
      match rest with
      | [] => flush w ws
      | d :: rest' => swGo true (w ++ [d]) ws rest'
    else swGo true (w ++ [c]) ws rest
  | false, w, ws, c :: rest =>
    if c == cQuote then swGo true w ws rest
    else if c == cSpace || c == cTab then swGo false [] (flush w ws) rest
    else if c == cBackslash then
      match rest with
      | [] => flush w ws
      | d :: rest' => swGo false (w ++ [d]) ws rest'
    else swGo false (w ++ [c]) ws rest

def splitWords (q : Bytes) : List Bytes := swGo false [] [] q

/-! ### parts -/

/-- `operation`; the declaration order equals < ltgt < lt < gt is used by `merge`. -/
inductive Op | equals | ltgt | lt | gt
  deriving DecidableEq, Repr

def Op.toNat : Op → Nat
  | .equals => 0 | .ltgt => 1 | .lt => 2 | .gt => 3

/-- A query part over an arbitrary value type (instantiated with `Bytes`). -/
structure PartG (V : Type) where
  key : Bytes
  op : Op
  value : V
  value2 : V
  deriving DecidableEq, Repr

abbrev Part := PartG Bytes

inductive QErr
  | missingOp    -- "query part %q is missing operator"
  | invalidKey   -- "query part %q has invalid key"
  | eof          -- io.EOF: the query can never match
  | missingValue -- "missing value for key %q"
  deriving DecidableEq, Repr

def isAsciiSpace (c : UInt8) : Bool := c == 32 || (9 ≤ c && c ≤ 13)
def isAsciiUpper (c : UInt8) : Bool := 65 ≤ c && c ≤ 90
def isAsciiLower (c : UInt8) : Bool := 97 ≤ c && c ≤ 122

def cColon : UInt8 := 58
def cLt : UInt8 := 60
def cGt : UInt8 := 62

def isSep (c : UInt8) : Bool :=
  c == cColon || c == cGt || c == cLt || isAsciiSpace c || isAsciiUpper c

/-- `parseWord` (ASCII classification of the separator scan; see notes for the assumption). -/
def parseWordGo (key : Bytes) : Bytes → Except QErr Part
  | [] => .error .missingOp
  | c :: rest =>
    if isSep c then
      if c == cColon then .ok ⟨key, .equals, rest, []⟩
      else if c == cLt then .ok ⟨key, .lt, rest, []⟩
      else if c == cGt then .ok ⟨key, .gt, rest, []⟩
      else .error .invalidKey
    else parseWordGo (key ++ [c]) rest

def parseWord (w : Bytes) : Except QErr Part := parseWordGo [] w

section merge
variable {V : Type} [DecidableEq V] (lt : V → V → Bool) (e : V)

/-- The tail of `merge` ("p.operator == ltgt"). -/
def finishLtgt (p : PartG V) : Option (PartG V) :=
  if (lt p.value p.value2 || p.value == p.value2) || p.value == e then none
  else if p.value2 == e then some ⟨p.key, .lt, p.value, e⟩
  else some p

/-- `part.merge`; `none` is io.EOF. `lt` is the order on values, `e` the empty string. -/
def mergeG (p p2 : PartG V) : Option (PartG V) :=
  let (p, p2) := if p2.op.toNat < p.op.toNat then (p2, p) else (p, p2)
  match p.op with
  | .equals =>
    match p2.op with
    | .equals => if p.value == p2.value then some p else none
    | .lt => if lt p.value p2.value then some p else none
    | .gt => if lt p2.value p.value then some p else none
    | .ltgt => if lt p.value p2.value && lt p2.value2 p.value then some p else none
  | .ltgt =>
    match p2.op with
    | .ltgt =>
      let p := if lt p2.value p.value then { p with value := p2.value } else p
      let p := if lt p.value2 p2.value2 then { p with value2 := p2.value2 } else p
      finishLtgt lt e p
    | .lt =>
      let p := if lt p2.value p.value then { p with value := p2.value } else p
      finishLtgt lt e p
    | .gt =>
      let p := if lt p.value2 p2.value then { p with value2 := p2.value } else p
      finishLtgt lt e p
    | .equals => finishLtgt lt e p   -- unreachable (operands sorted)
  | .lt =>
    match p2.op with
    | .lt => if lt p2.value p.value then some p2 else some p
    | .gt => finishLtgt lt e ⟨p.key, .ltgt, p.value, p2.value⟩
    | _ => finishLtgt lt e p        -- unreachable (operands sorted)
  | .gt => if lt p.value p2.value then some p2 else some p

end merge

def merge (p p2 : Part) : Option Part := mergeG blt [] p p2

/-! ### SQL -/

/-- predicate on one column value -/
inductive Pred
  | eq (v : Bytes) | lt (v : Bytes) | gt (v : Bytes) | ltgt (v v2 : Bytes) | any
  deriving DecidableEq, Repr

def Pred.holds : Pred → Bytes → Bool
  | .eq v, x => x == v
  | .lt v, x => blt x v
  | .gt v, x => blt v x
  | .ltgt v v2, x => blt x v && blt v2 x
  | .any, _ => true

/-- a subselect: on `Records.UploadID`, or on `RecordLabels` rows with `Name = key` -/
inductive Sql
  | upload (p : Pred)
  | label (key : Bytes) (p : Pred)
  deriving DecidableEq, Repr

def uploadKey : Bytes := ofString "upload"

/-- `part.sql()` -/
def Part.sql (p : Part) : Except QErr Sql :=
  if p.key == uploadKey then
    match p.op with
    | .equals => .ok (.upload (.eq p.value))
    | .lt => .ok (.upload (.lt p.value))
    | .gt => .ok (.upload (.gt p.value))
    | .ltgt => .ok (.upload (.ltgt p.value p.value2))
  else
    match p.op with
    | .equals => if p.value.isEmpty then .error .missingValue else .ok (.label p.key (.eq p.value))
    | .lt => .ok (.label p.key (.lt p.value))
    | .gt => if p.value.isEmpty then .ok (.label p.key .any) else .ok (.label p.key (.gt p.value))
    | .ltgt => .ok (.label p.key (.ltgt p.value p.value2))

def Pred.text : Pred → String → String
  | .eq _, col => s!"{col} = ?"
  | .lt _, col => s!"{col} < ?"
  | .gt _, col => s!"{col} > ?"
  | .ltgt _ _, col => s!"{col} < ? AND {col} > ?"
  | .any, _ => ""

def Pred.args : Pred → List Bytes
  | .eq v => [v] | .lt v => [v] | .gt v => [v] | .ltgt v v2 => [v, v2] | .any => []

def Sql.text : Sql → String
  | .upload p => "SELECT UploadID, RecordID FROM Records WHERE " ++ p.text "UploadID"
  | .label _ .any => "SELECT UploadID, RecordID FROM RecordLabels WHERE Name = ?"
  | .label _ p => "SELECT UploadID, RecordID FROM RecordLabels WHERE Name = ? AND " ++ p.text "Value"

def Sql.args : Sql → List Bytes
  | .upload p => p.args
  | .label k p => k :: p.args

/-! ### parseQuery -/

/-- `parts[p.key]` lookup / update in the per-key table (first occurrence order is kept in the list,
the Go code keeps it in `keys`). -/
def addPart (tbl : List Part) (p : Part) : Except QErr (List Part) :=
  match tbl with
  | [] => .ok [p]
  | t :: rest =>
    if t.key == p.key then
      match merge t p with
      | some m => .ok (m :: rest)
      | none => .error .eof
    else do
      let r ← addPart rest p
      pure (t :: r)

/-- the loop over the words: the first failing word or merge ends the parse -/
def collect (tbl : List Part) : List Bytes → Except QErr (List Part)
  | [] => .ok tbl
  | w :: ws => do
    let p ← parseWord w
    let tbl ← addPart tbl p
    collect tbl ws

def insertByKey (p : Part) : List Part → List Part
  | [] => [p]
  | t :: rest => if blt p.key t.key then p :: t :: rest else t :: insertByKey p rest

/-- `sort.Strings(keys)` (keys are distinct) -/
def sortByKey (l : List Part) : List Part := l.foldr insertByKey []

def sqlAll : List Part → Except QErr (List Sql)
  | [] => .ok []
  | p :: ps => do
    let s ← p.sql
    let r ← sqlAll ps
    pure (s :: r)

def mergedParts (q : Bytes) : Except QErr (List Part) := do
  let tbl ← collect [] (splitWords q)
  pure (sortByKey tbl)

def parseQuery (q : Bytes) : Except QErr (List Sql) := do
  let ps ← mergedParts q
  sqlAll ps

/-! ### relational meaning -/

structure UploadRow where
  id : Bytes
  day : Bytes
  seq : Nat
  deriving DecidableEq, Repr

structure RecordRow where
  upload : Bytes
  rid : Nat
  content : Bytes
  deriving DecidableEq, Repr

structure LabelRow where
  upload : Bytes
  rid : Nat
  name : Bytes
  value : Bytes
  deriving DecidableEq, Repr

structure DB where
  uploads : List UploadRow := []
  records : List RecordRow := []
  labels : List LabelRow := []
  deriving Repr

abbrev RKey := Bytes × Nat

def RecordRow.rkey (r : RecordRow) : RKey := (r.upload, r.rid)
def LabelRow.rkey (l : LabelRow) : RKey := (l.upload, l.rid)

/-- rows `(UploadID, RecordID)` of one subselect -/
def Sql.rows (db : DB) : Sql → List RKey
  | .upload p => (db.records.filter fun r => p.holds r.upload).map RecordRow.rkey
  | .label k p => (db.labels.filter fun l => l.name == k && p.holds l.value).map LabelRow.rkey

/-- `a INNER JOIN b USING (UploadID, RecordID)` (bag semantics) -/
def joinUsing (a b : List RKey) : List RKey :=
  a.flatMap fun x => (b.filter (· == x)).map fun _ => x

/-- `t0 INNER JOIN t1 USING … INNER JOIN t2 USING …` -/
def joinAll (db : DB) : List Sql → List RKey
  | [] => []
  | s :: rest => rest.foldl (fun acc t => joinUsing acc (t.rows db)) (s.rows db)

/-- `… LEFT JOIN Records r USING (UploadID, RecordID)`, `SELECT r.Content`; with no subselect
`SELECT r.Content FROM Records r`. -/
def selectRecords (db : DB) (sqls : List Sql) : List RecordRow :=
  match sqls with
  | [] => db.records
  | _ => (joinAll db sqls).flatMap fun k => db.records.filter (·.rkey == k)

/-- `DB.Query` up to the decoding of the stored contents: `.error .eof` is reported by the Go code
as an empty result without error. -/
def queryRecords (db : DB) (q : Bytes) : Except QErr (List RecordRow) := do
  let sqls ← parseQuery q
  pure (selectRecords db sqls)

/-! ### ListUploads -/

/-- `ORDER BY u.Day DESC, u.Seq DESC, u.UploadID DESC`: `newer a b` iff a sorts before b -/
def newer (a b : UploadRow) : Bool :=
  blt b.day a.day || (a.day == b.day && (b.seq < a.seq || (a.seq == b.seq && blt b.id a.id)))

def insertNewer (u : UploadRow × Nat) : List (UploadRow × Nat) → List (UploadRow × Nat)
  | [] => [u]
  | t :: rest => if newer u.1 t.1 then u :: t :: rest else t :: insertNewer u rest

def sortNewer (l : List (UploadRow × Nat)) : List (UploadRow × Nat) := l.foldr insertNewer []

/-- `LIMIT n` when `limit != 0`; a negative limit means no limit in SQLite -/
def applyLimit {α : Type} (limit : Int) (l : List α) : List α :=
  if limit > 0 then l.take limit.toNat else l

/-- number of rows of the join with this UploadID (`GROUP BY UploadID`, `COUNT(*)`) -/
def countFor (keys : List RKey) (id : Bytes) : Nat := (keys.filter (·.1 == id)).length

/-- `DB.ListUploads(q, nil, limit)`: `(UploadID, rCount)` rows -/
def listUploads (db : DB) (q : Bytes) (limit : Int) : Except QErr (List (Bytes × Nat)) := do
  let sqls ← parseQuery q
  let counted : List (UploadRow × Nat) :=
    match sqls with
    | [] => db.uploads.map fun u => (u, (db.records.filter (·.upload == u.id)).length)
    | _ =>
      let keys := (joinAll db sqls).flatMap fun k => (db.records.filter (·.rkey == k)).map (·.rkey)
      db.uploads.map fun u => (u, countFor keys u.id)
  let present := counted.filter (·.2 > 0)
  pure ((applyLimit limit (sortNewer present)).map fun p => (p.1.id, p.2))

end Storage.Query
