/-
C19: the storage model with its three lexical primitives made a parameter (`Lex`), so that the
correspondence run can use Go's Unicode classification (`Lex.unicode uc`, with `uc : Fmt.UC` taken
from a table the harness dumps from the toolchain's `unicode` package) while the theorems talk
about `Lex.ascii`, i.e. the functions of Model/Storage/{Query,Fmt}.lean. The glue below is a
verbatim copy of the glue there; `Proofs/Lemmas/C19Lex.lean` proves the two equal at `Lex.ascii`.
Core Lean only.
-/
import Model.Base.Bytes
import Model.Fmt.Rune
import Model.Storage.Query
import Model.Storage.Fmt

namespace Storage.Lex
open Bytes Storage.Query Storage.Fmt

abbrev UC := _root_.Fmt.UC
abbrev decodeRune := _root_.Fmt.decodeRune

structure Lex where
  /-- `parseKeyValueLine` -/
  kv : Bytes → Option (Bytes × Bytes)
  /-- `parseBenchmarkLine` -/
  bench : Bytes → Option Bytes
  /-- `parseWord` -/
  word : Bytes → Except QErr Part

def Lex.ascii : Lex := ⟨parseKeyValueLine, parseBenchmarkLine, parseWord⟩

/-! ### the primitives over runes (`for i, c := range s`, `strings.IndexFunc`) -/

/-- `parseWord`: the separator is the first rune that is `:`, `>`, `<`, a space or an upper-case
letter; `sep` is the BYTE at that index -/
def wordScanU (uc : UC) : Nat → Bytes → Bytes → Except QErr Part
  | 0, _, _ => .error .missingOp
  | _, _, [] => .error .missingOp
  | fuel + 1, key, c :: rest =>
    let (r, n) := decodeRune (c :: rest)
    if r == 58 || r == 62 || r == 60 || uc.space r || uc.upper r then
      if c == cColon then .ok ⟨key, .equals, rest, []⟩
      else if c == cLt then .ok ⟨key, .lt, rest, []⟩
      else if c == cGt then .ok ⟨key, .gt, rest, []⟩
      else .error .invalidKey
    else wordScanU uc fuel (key ++ (c :: rest).take n) ((c :: rest).drop n)

def parseWordU (uc : UC) (w : Bytes) : Except QErr Part := wordScanU uc (w.length + 1) [] w

/-- the rune loop of `parseKeyValueLine`; `i` is the byte offset -/
def kvScanU (uc : UC) : Nat → Nat → Bytes → Option Nat
  | 0, _, _ => none
  | _, _, [] => none
  | fuel + 1, i, c :: rest =>
    let (r, n) := decodeRune (c :: rest)
    if i == 0 && !uc.lower r then none
    else if uc.space r || uc.upper r then none
    else if i > 0 && r == 58 then some i
    else kvScanU uc fuel (i + n) ((c :: rest).drop n)

def parseKeyValueLineU (uc : UC) (line : Bytes) : Option (Bytes × Bytes) :=
  match kvScanU uc (line.length + 1) 0 line with
  | none => none
  | some i =>
    let key := line.take i
    let val := line.drop (i + 1)
    if val.isEmpty then some (key, [])
    else
      let v := val.dropWhile isBlank
      if v.length < val.length then some (key, v) else none

/-- `strings.IndexFunc(line, unicode.IsSpace)` -/
def spaceIndexU (uc : UC) : Nat → Nat → Bytes → Option Nat
  | 0, _, _ => none
  | _, _, [] => none
  | fuel + 1, i, c :: rest =>
    let (r, n) := decodeRune (c :: rest)
    if uc.space r then some i else spaceIndexU uc fuel (i + n) ((c :: rest).drop n)

def parseBenchmarkLineU (uc : UC) (line : Bytes) : Option Bytes :=
  match spaceIndexU uc (line.length + 1) 0 line with
  | none => none
  | some i =>
    let name := line.take i
    if hasPrefix name benchPrefix then some (name.drop benchPrefix.length) else none

def Lex.unicode (uc : UC) : Lex := ⟨parseKeyValueLineU uc, parseBenchmarkLineU uc, parseWordU uc⟩

/-! ### the glue, parameterised -/

section
variable (lx : Lex)

def nextGoL (havePerm : Bool) (r : Reader) : List Bytes → Option (Result × Reader × List Bytes)
  | [] => none
  | line :: rest =>
    let r := { r with lineNum := r.lineNum + 1 }
    match lx.kv line with
    | some (key, value) =>
      if (r.perm.getD []).has key then nextGoL havePerm r rest
      else if value.isEmpty then nextGoL havePerm { r with labels := r.labels.erase key } rest
      else nextGoL havePerm { r with labels := r.labels.set key value } rest
    | none =>
      let r := if !havePerm then
          (if line.isEmpty then { r with perm := some r.labels } else { r with perm := some [] })
        else r
      match lx.bench line with
      | some fullName =>
        let (res, r) := r.newResult fullName line
        some (res, r, rest)
      | none => nextGoL havePerm r rest

def nextL (r : Reader) (lines : List Bytes) : Option (Result × Reader × List Bytes) :=
  nextGoL lx r.perm.isSome r lines

def allGoL : Nat → Reader → List Bytes → List Result
  | 0, _, _ => []
  | fuel + 1, r, lines =>
    match nextL lx r lines with
    | none => []
    | some (res, r, rest) => res :: allGoL fuel r rest

def allL (r : Reader) (data : Bytes) : List Result :=
  let lines := scanLines data
  allGoL lx (lines.length + 1) r lines

def readAllL (data : Bytes) : List Result := allL lx {} data

def indexFileL (u : Upload) (i : Nat) (user : Bytes) (f : FileIn) : Option Upload :=
  if tooLong f.content then none else
  let lbls := metaLabels u.id i user f.name
  let results := allL lx (Reader.addLabels {} lbls) f.content
  if results.isEmpty then none else some (results.foldl Upload.insertRecord u)

def indexFilesL (u : Upload) (user : Bytes) : Nat → List FileIn → Option Upload
  | _, [] => some u
  | i, f :: fs =>
    match indexFileL lx u i user f with
    | none => none
    | some u => indexFilesL u user (i + 1) fs

def processUploadL (db : DB) (day user : Bytes) (files : List FileIn) : DB × Bytes × Bool :=
  let seq := nextSeq db day
  let id := day ++ [46] ++ natToDec seq
  if db.uploads.any (·.id == id) then (db, id, false) else
  let db := { db with uploads := db.uploads ++ [⟨id, day, seq⟩] }
  match indexFilesL lx { id := id } user 0 files with
  | none => (db, id, false)
  | some u =>
    if pkClash u.labels then (db, id, false)
    else ({ db with records := db.records ++ u.records, labels := db.labels ++ u.labels }, id, true)

def collectL (tbl : List Part) : List Bytes → Except QErr (List Part)
  | [] => .ok tbl
  | w :: ws => do
    let p ← lx.word w
    let tbl ← addPart tbl p
    collectL tbl ws

def parseQueryL (q : Bytes) : Except QErr (List Sql) := do
  let tbl ← collectL lx [] (splitWords q)
  sqlAll (sortByKey tbl)

def queryRecordsL (db : DB) (q : Bytes) : Except QErr (List RecordRow) := do
  let sqls ← parseQueryL lx q
  pure (selectRecords db sqls)

def listUploadsL (db : DB) (q : Bytes) (limit : Int) : Except QErr (List (Bytes × Nat)) := do
  let sqls ← parseQueryL lx q
  let counted : List (UploadRow × Nat) :=
    match sqls with
    | [] => db.uploads.map fun u => (u, (db.records.filter (·.upload == u.id)).length)
    | _ =>
      let keys := (joinAll db sqls).flatMap fun k => (db.records.filter (·.rkey == k)).map (·.rkey)
      db.uploads.map fun u => (u, countFor keys u.id)
  let present := counted.filter (·.2 > 0)
  pure ((applyLimit limit (sortNewer present)).map fun p => (p.1.id, p.2))

def dbQueryL (db : DB) (q : Bytes) : Except QErr (List Result) := do
  let recs ← queryRecordsL lx db q
  pure (recs.flatMap fun r => readAllL lx r.content)

def clientQueryL (db : DB) (q : Bytes) : Except QErr (List Result) := do
  let rs ← dbQueryL lx db q
  pure (readAllL lx (printAll [] rs))

end
end Storage.Lex
