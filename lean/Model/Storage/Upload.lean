/-
C20 — model of the upload path of the storage server.

  storage/app/upload.go   processUpload, indexFile
  storage/db/db.go        NewUpload (id allocation), Upload.InsertRecord / insertLabel / flush / Commit / Abort,
                          ListUploads (empty query), the `upload` and label sub-selects of Query
  storage/fs/fs.go        FS / Writer (Close stores, CloseWithError discards)
  storage/benchfmt        legacy Reader: line scanner, parseKeyValueLine, parseBenchmarkLine (ASCII part)

A request is given as the *event stream* the multipart layer hands to processUpload (parts in order,
delivered content of each file part, whether the part's reader ended with an error, whether NextPart
finally failed) plus an optional file-store fault (the k-th NewWriter/Write/Close call fails).
Core Lean only.

Abstractions (validated by the correspondence run, named in notes/C20.md):
  * the Day column is the natural number YYYYMMDD (8-digit strings compare like numbers);
    an Uploads row is the pair (day, seq); the id string `day.seq` is `renderId`.
  * NameLabels of a benchmark line are {name: <name>} (generated names have no '/' and no '-N').
  * bytes >= 0x80 are neither lower, upper nor space (generated files are ASCII).
-/
import Model.Base.Bytes

namespace Storage.Upload

/-! ### identifiers, rows, store -/

/-- An `Uploads` row: (Day, Seq). UploadID is `renderId`. -/
structure UKey where
  day : Nat
  seq : Nat
  deriving DecidableEq, Repr

/-- decimal digits of `n` in front of `acc` (fuel `> n` suffices) -/
def digitsAux : Nat → Nat → Bytes → Bytes
  | 0, _, acc => acc
  | fuel + 1, n, acc =>
    if n < 10 then UInt8.ofNat (48 + n) :: acc
    else digitsAux fuel (n / 10) (UInt8.ofNat (48 + n % 10) :: acc)

/-- `%d` -/
def natBytes (n : Nat) : Bytes := digitsAux (n + 1) n []

/-- `fmt.Sprintf("%s.%d", day, num)` -/
def renderId (k : UKey) : Bytes := natBytes k.day ++ [46] ++ natBytes k.seq

abbrev Labels := List (Bytes × Bytes)

def Labels.set (l : Labels) (k v : Bytes) : Labels :=
  if l.any (fun p => p.1 == k) then l.map (fun p => if p.1 == k then (k, v) else p) else l ++ [(k, v)]

def Labels.del (l : Labels) (k : Bytes) : Labels := l.filter (fun p => !(p.1 == k))

/-- `Labels.Equal` (maps with unique keys) -/
def Labels.eqv (a b : Labels) : Bool :=
  a.length == b.length && a.all (fun p => b.lookup p.1 == some p.2)

/-- A `Records` row together with its label rows (labels ∪ {name}). `lines` are the benchmark
lines coalesced into the row's Content. -/
structure RRow where
  up : UKey
  rid : Nat
  labels : Labels
  name : Bytes
  lines : List Bytes
  deriving Repr

/-- file name `uploads/<id>/<part>.txt` -/
structure Path where
  up : UKey
  part : Nat
  deriving DecidableEq, Repr

abbrev Store := List (Path × Bytes)

/-- CloseWithError: the name disappears from the store (local: os.Remove; MemFS: never published) -/
def Store.remove (s : Store) (p : Path) : Store := s.filter (fun e => !(e.1 == p))

/-- Close of a writer: the file appears under its name, replacing an older one. -/
def Store.put (s : Store) (p : Path) (c : Bytes) : Store := s.remove p ++ [(p, c)]

structure DB where
  uploads : List UKey := []
  records : List RRow := []
  deriving Repr

structure Sys where
  db : DB := {}
  fs : Store := []
  deriving Repr

/-! ### id allocation (db.NewUpload, first transaction) -/

/-- ORDER BY Day, Seq -/
def keyLe (a b : UKey) : Bool := a.day < b.day || (a.day == b.day && a.seq ≤ b.seq)

/-- `SELECT UploadID FROM Uploads ORDER BY Day DESC, Seq DESC LIMIT 1` -/
def lastUpload : List UKey → Option UKey
  | [] => none
  | k :: ks =>
    match lastUpload ks with
    | none => some k
    | some m => if keyLe m k then some k else some m

/-- `num = 0; if HasPrefix(lastID, day) { num = Atoi(rest) }; num++` -/
def nextKey (day : Nat) (last : Option UKey) : UKey :=
  match last with
  | none => ⟨day, 1⟩
  | some l => if l.day = day then ⟨day, l.seq + 1⟩ else ⟨day, 1⟩

/-- The id transaction: read last, insert (primary key check), commit. `none` = insert refused. -/
def allocId (day : Nat) (rows : List UKey) : Option UKey :=
  let k := nextKey day (lastUpload rows)
  if k ∈ rows then none else some k

/-! ### legacy benchfmt reader (ASCII) -/

def isLowerA (c : UInt8) : Bool := 97 ≤ c && c ≤ 122
def isUpperA (c : UInt8) : Bool := 65 ≤ c && c ≤ 90
def isSpaceA (c : UInt8) : Bool := c == 32 || (9 ≤ c && c ≤ 13)

def dropCR (l : Bytes) : Bytes :=
  match l.getLast? with
  | some 13 => l.dropLast
  | _ => l

/-- `bufio.ScanLines` over the whole delivered content -/
def splitLinesAux : Bytes → Bytes → List Bytes
  | [], acc => if acc.isEmpty then [] else [dropCR acc.reverse]
  | c :: r, acc => if c == 10 then dropCR acc.reverse :: splitLinesAux r [] else splitLinesAux r (c :: acc)

def splitLines (b : Bytes) : List Bytes := splitLinesAux b []

/-- key part after the first character up to ':' ; `none` when a space/upper-case rune comes first -/
def findColon : Bytes → Option (Bytes × Bytes)
  | [] => none
  | c :: r =>
    if isSpaceA c || isUpperA c then none
    else if c == 58 then some ([], r)
    else (findColon r).map (fun kv => (c :: kv.1, kv.2))

/-- `parseKeyValueLine` -/
def parseKV (line : Bytes) : Option (Bytes × Bytes) :=
  match line with
  | [] => none
  | c :: rest =>
    if !isLowerA c then none else
    match findColon rest with
    | none => none
    | some (kt, val) =>
      if val.isEmpty then some (c :: kt, [])
      else
        let v := val.dropWhile (fun b => b == 32 || b == 9)
        if v.length < val.length then some (c :: kt, v) else none

def benchmarkWord : Bytes := [66, 101, 110, 99, 104, 109, 97, 114, 107]

/-- `parseBenchmarkLine`: the full name (prefix stripped) -/
def benchName (line : Bytes) : Option Bytes :=
  let name := line.takeWhile (fun c => !isSpaceA c)
  if name.length == line.length then none
  else if Bytes.hasPrefix name benchmarkWord then some (name.drop 9) else none

structure Res where
  labels : Labels
  name : Bytes
  line : Bytes
  deriving Repr

/-- `Reader.Next` repeated; `perm` are the labels given to AddLabels -/
def readResults (perm : Labels) : List Bytes → Labels → List Res
  | [], _ => []
  | line :: rest, labels =>
    match parseKV line with
    | some (k, v) =>
      if perm.any (fun p => p.1 == k) then readResults perm rest labels
      else if v.isEmpty then readResults perm rest (labels.del k)
      else readResults perm rest (labels.set k v)
    | none =>
      match benchName line with
      | some name => ⟨labels, name, line⟩ :: readResults perm rest labels
      | none => readResults perm rest labels

/-! ### the record transaction (db.Upload) -/

structure Tx where
  id : UKey
  recordid : Nat := 0
  /-- insertRecordArgs, one entry per row -/
  pendRec : List RRow := []
  /-- insertLabelArgs, one (RecordID, Name) per row -/
  pendLab : List (Nat × Bytes) := []
  /-- lastResult (labels and name of the result that opened the newest pending row) -/
  last : Option (Labels × Bytes) := none
  /-- rows already sent inside the open transaction -/
  txRec : List RRow := []
  txLab : List (Nat × Bytes) := []
  deriving Repr

def hasDup : List (Nat × Bytes) → Bool
  | [] => false
  | x :: xs => xs.any (fun y => y == x) || hasDup xs

/-- would the pending label rows violate PRIMARY KEY (UploadID, RecordID, Name)? Rows already sent can
only collide with pending rows of the same RecordID, so only those are looked at. -/
def Tx.labelClash (t : Tx) : Bool :=
  let lo := t.pendLab.foldl (fun m x => min m x.1) t.recordid
  let sent := t.txLab.filter (fun y => lo ≤ y.1)
  hasDup t.pendLab || t.pendLab.any (fun x => sent.any (fun y => y == x))

/-- `Upload.flush`; `none` = the INSERT violated PRIMARY KEY (UploadID, RecordID, Name) -/
def Tx.flush (t : Tx) : Option Tx :=
  let t1 := { t with txRec := t.txRec ++ t.pendRec, pendRec := [] }
  if t.labelClash then none
  else some { t1 with txLab := t.txLab ++ t.pendLab, pendLab := [], last := none }

/-- `insertLabel` -/
def Tx.insertLabel (t : Tx) (key : Bytes) : Option Tx :=
  let go (t : Tx) : Tx := { t with pendLab := t.pendLab ++ [(t.recordid, key)] }
  if 4 * t.pendLab.length ≥ 990 then (t.flush).map go else some (go t)

def Tx.insertLabels : Tx → List Bytes → Option Tx
  | t, [] => some t
  | t, k :: ks =>
    match t.insertLabel k with
    | none => none
    | some t' => Tx.insertLabels t' ks

def appendLine : List RRow → Bytes → List RRow
  | [], _ => []
  | [r], l => [{ r with lines := r.lines ++ [l] }]
  | r :: rs, l => r :: appendLine rs l

def nameKey : Bytes := [110, 97, 109, 101]

/-- `Upload.InsertRecord`, a result that opens a new row -/
def Tx.insertRecordNew (t : Tx) (r : Res) : Option Tx :=
  let t1 := { t with last := some (r.labels, r.name),
                     pendRec := t.pendRec ++ [⟨t.id, t.recordid, r.labels, r.name, [r.line]⟩] }
  match Tx.insertLabels t1 (r.labels.map (·.1) ++ [nameKey]) with
  | none => none
  | some t2 => some { t2 with recordid := t2.recordid + 1 }

/-- `Upload.InsertRecord` -/
def Tx.insertRecord (t : Tx) (r : Res) : Option Tx :=
  match t.last with
  | some (ll, ln) =>
    if ll.eqv r.labels && ln == r.name then some { t with pendRec := appendLine t.pendRec r.line }
    else Tx.insertRecordNew t r
  | none => Tx.insertRecordNew t r

def Tx.insertRecords : Tx → List Res → Option Tx
  | t, [] => some t
  | t, r :: rs =>
    match t.insertRecord r with
    | none => none
    | some t' => Tx.insertRecords t' rs

/-! ### requests, faults, trace -/

inductive Part where
  /-- a part whose form name is not "file" -/
  | field (name : Bytes)
  /-- a file part: base file name, the bytes its reader delivers, whether the reader then fails,
      the sizes of the successive non-empty reads (Write calls on the file writer) -/
  | file (fname content : Bytes) (cut : Bool) (chunks : List Nat)
  deriving Repr

/-- the k-th file-store call (NewWriter, Write, Close counted together from 0) fails;
`sticky`: every later call fails too; `leaves`: a failing Close leaves the data under the name
(local disk) instead of discarding it -/
structure Fault where
  k : Nat
  sticky : Bool
  leaves : Bool
  deriving Repr

structure Req where
  parts : List Part
  /-- NextPart after the listed parts returns an error instead of io.EOF -/
  endErr : Bool
  fault : Option Fault
  deriving Repr

structure Env where
  day : Nat
  user : Bytes
  /-- text of time.Now().UTC().Format(time.RFC3339) (canonicalised by the harness) -/
  time : Bytes
  deriving Repr

inductive Err where
  | body | field | nofiles | nobench | fs | db
  deriving DecidableEq, Repr

inductive Op where
  | nw (ok : Bool)
  | wr (n : Nat) (ok : Bool)
  | cl (ok : Bool)
  | cwe
  deriving DecidableEq, Repr

def failsAt (f : Option Fault) (opc : Nat) : Bool :=
  match f with
  | none => false
  | some f => if f.sticky then f.k ≤ opc else f.k == opc

/-- does a failing Close leave the data in the store -/
def leavesOf (f : Option Fault) : Bool :=
  match f with
  | some ft => ft.leaves
  | none => false

/-- state of processUpload between statements -/
structure Run where
  uploads : List UKey
  fs : Store
  tx : Option Tx := none
  opc : Nat := 0
  trace : List Op := []
  fileids : List Path := []
  /-- the file whose writer was open when the failure happened -/
  inprog : Option Path := none
  deriving Repr

/-! ### indexFile -/

def bytesLt : Bytes → Bytes → Bool
  | [], [] => false
  | [], _ :: _ => true
  | _ :: _, [] => false
  | a :: as, b :: bs => a < b || (a == b && bytesLt as bs)

def insertSorted (x : Bytes × Bytes) : Labels → Labels
  | [] => [x]
  | y :: ys => if bytesLt x.1 y.1 then x :: y :: ys else y :: insertSorted x ys

/-- `sort.Strings(keys)` -/
def sortLabels (l : Labels) : Labels := l.foldr insertSorted []

def partId (k : UKey) (i : Nat) : Bytes := renderId k ++ [47] ++ natBytes i

/-- the `meta` map of processUpload -/
def mkMeta (env : Env) (k : UKey) (i : Nat) (fname : Bytes) : Labels :=
  [(Bytes.ofString "upload", renderId k),
   (Bytes.ofString "upload-part", partId k i),
   (Bytes.ofString "upload-time", env.time)]
  ++ (if fname.isEmpty then [] else [(Bytes.ofString "upload-file", fname)])
  ++ (if env.user.isEmpty then [] else [(Bytes.ofString "by", env.user)])

def headerLine (p : Bytes × Bytes) : Bytes := p.1 ++ [58, 32] ++ p.2 ++ [10]

/-- writes in order, stopping at the first failing one: (failed, next op index, bytes written, ops) -/
def doWrites (f : Option Fault) : List Bytes → Nat → Bool × Nat × Bytes × List Op
  | [], opc => (false, opc, [], [])
  | w :: ws, opc =>
    if failsAt f opc then (true, opc + 1, [], [Op.wr w.length false])
    else
      let r := doWrites f ws (opc + 1)
      (r.1, r.2.1, w ++ r.2.2.1, Op.wr w.length true :: r.2.2.2)

def splitChunks : Bytes → List Nat → List Bytes
  | b, [] => if b.isEmpty then [] else [b]
  | b, n :: ns => if b.isEmpty then [] else if n == 0 then splitChunks b ns else b.take n :: splitChunks (b.drop n) ns

structure FileIn where
  idx : Nat
  fname : Bytes
  content : Bytes
  cut : Bool
  chunks : List Nat

/-- an error return of indexFile with the writer open: the deferred func calls CloseWithError -/
def failFile (r : Run) (t : Tx) (p : Path) (ops : List Op) (opc : Nat) (e : Err) : Run × Tx × Option Err :=
  ({ r with opc := opc, trace := r.trace ++ ops ++ [Op.cwe], inprog := some p, fs := r.fs.remove p }, t, some e)

/-- `indexFile` -/
def indexFile (env : Env) (f : Option Fault) (r : Run) (t : Tx) (x : FileIn) : Run × Tx × Option Err :=
  let p : Path := ⟨t.id, x.idx⟩
  let md := mkMeta env t.id x.idx x.fname
  -- fw, err := a.FS.NewWriter(...)
  if failsAt f r.opc then
    ({ r with opc := r.opc + 1, trace := r.trace ++ [Op.nw false] }, t, some Err.fs)
  else
  let opc := r.opc + 1
  -- header lines, keys sorted, then the blank separator line; an error returns
  let h := doWrites f ((sortLabels md).map headerLine ++ [[10]]) opc
  if h.1 then failFile r t p (Op.nw true :: h.2.2.2) h.2.1 Err.fs else
  let ops0 := Op.nw true :: h.2.2.2
  -- io.TeeReader(p, fw): one Write per non-empty read
  let b := doWrites f (splitChunks x.content x.chunks) h.2.1
  if b.1 then failFile r t p (ops0 ++ b.2.2.2) b.2.1 Err.fs else
  let buf := h.2.2.1 ++ b.2.2.1
  let ops := ops0 ++ b.2.2.2
  let results := readResults md (splitLines x.content) md
  match t.insertRecords results with
  | none => failFile r t p ops b.2.1 Err.db
  | some t' =>
    if x.cut then failFile r t' p ops b.2.1 Err.body
    else if results.isEmpty then failFile r t' p ops b.2.1 Err.nobench
    else if failsAt f b.2.1 then
      -- err = fw.Close() failed (the data may have reached the store); then fw.CloseWithError(err)
      ({ r with opc := b.2.1 + 1, trace := r.trace ++ ops ++ [Op.cl false, Op.cwe], inprog := some p,
                fs := (if leavesOf f then r.fs.put p buf else r.fs).remove p }, t', some Err.fs)
    else
      ({ r with opc := b.2.1 + 1, trace := r.trace ++ ops ++ [Op.cl true], fs := r.fs.put p buf }, t', none)

/-! ### processUpload -/

def commitWord : Bytes := Bytes.ofString "commit"

/-- the parts loop; the index `i` counts every part (also skipped `commit` fields) -/
def runParts (env : Env) (f : Option Fault) : List Part → Nat → Run → Run × Option Err
  | [], _, r => (r, none)
  | Part.field name :: ps, i, r =>
    if name == commitWord then runParts env f ps (i + 1) r else (r, some Err.field)
  | Part.file fname content cut chunks :: ps, i, r =>
    let start : Option (Run × Tx) :=
      match r.tx with
      | some t => some (r, t)
      | none =>
        match allocId env.day r.uploads with
        | none => none
        | some k => some ({ r with uploads := r.uploads ++ [k] }, { id := k })
    match start with
    | none => (r, some Err.db)
    | some (r1, t) =>
      let res := indexFile env f r1 t ⟨i, fname, content, cut, chunks⟩
      let r2 := { res.1 with tx := some res.2.1 }
      match res.2.2 with
      | some e => (r2, some e)
      | none => runParts env f ps (i + 1) { r2 with fileids := r2.fileids ++ [⟨t.id, i⟩] }

structure Outcome where
  sys : Sys
  resp : Except Err (UKey × List Path)
  trace : List Op
  inprog : Option Path
  /-- id given out by NewUpload during this request, if any -/
  alloc : Option UKey
  deriving Repr

/-- deferred `upload.Abort()`: the record transaction is rolled back; the Uploads row and the
file store stay as they are -/
def abortOutcome (s : Sys) (r : Run) (e : Err) : Outcome :=
  { sys := { db := { uploads := r.uploads, records := s.db.records }, fs := r.fs },
    resp := .error e, trace := r.trace, inprog := r.inprog, alloc := r.tx.map (·.id) }

def processUpload (env : Env) (req : Req) (s : Sys) : Outcome :=
  let r0 : Run := { uploads := s.db.uploads, fs := s.fs }
  let res := runParts env req.fault req.parts 0 r0
  let r := res.1
  let e : Option Err := match res.2 with
    | some e => some e
    | none => if req.endErr then some Err.body else none
  match e with
  | some e => abortOutcome s r e
  | none =>
    match r.tx with
    | none => abortOutcome s r Err.nofiles
    | some t =>
      -- upload.Commit(): flush, then tx.Commit()
      match t.flush with
      | none => abortOutcome s r Err.db
      | some t' =>
        { sys := { db := { uploads := r.uploads, records := s.db.records ++ t'.txRec }, fs := r.fs },
          resp := .ok (t.id, r.fileids), trace := r.trace, inprog := none, alloc := some t.id }

/-- a history of requests, oldest first -/
def runHistory : List (Env × Req) → Sys → Sys
  | [], s => s
  | (env, req) :: rest, s => runHistory rest (processUpload env req s).sys

/-! ### db.ReplaceUpload (used by the reindex tool) -/

/-- `db.ReplaceUpload(id)`, then InsertRecord of `rs`, then Commit (`commit`) or Abort.
The DELETE of the old records and the INSERT of a missing Uploads row run outside the record
transaction (they are effective even if the replacement is aborted). Ids of the form digits.digits
only (other ids get NULL day/seq and are not modelled). -/
def replaceUpload (k : UKey) (rs : List Res) (commit : Bool) (db : DB) : DB :=
  let recs := db.records.filter (fun r => !(r.up == k))
  let ups := if k ∈ db.uploads then db.uploads else db.uploads ++ [k]
  match ({ id := k } : Tx).insertRecords rs with
  | none => { uploads := ups, records := recs }
  | some t1 =>
    if commit then
      match t1.flush with
      | some t2 => { uploads := ups, records := recs ++ t2.txRec }
      | none => { uploads := ups, records := recs }
    else { uploads := ups, records := recs }

/-- an operation on the server: an upload request or a reindex of one upload -/
inductive HOp where
  | upload (env : Env) (req : Req)
  | replace (k : UKey) (rs : List Res) (commit : Bool)

def runOps : List HOp → Sys → Sys
  | [], s => s
  | HOp.upload env req :: rest, s => runOps rest (processUpload env req s).sys
  | HOp.replace k rs commit :: rest, s => runOps rest { s with db := replaceUpload k rs commit s.db }

/-! ### queries and listings -/

/-- every stored result: (row, benchmark line) -/
def DB.results (db : DB) : List (RRow × Bytes) :=
  db.records.flatMap (fun r => r.lines.map (fun l => (r, l)))

/-- `upload:<id>` -/
def DB.queryUpload (db : DB) (k : UKey) : List (RRow × Bytes) :=
  db.results.filter (fun x => x.1.up == k)

/-- `<key>:<value>` over RecordLabels -/
def DB.queryLabel (db : DB) (key val : Bytes) : List (RRow × Bytes) :=
  db.results.filter (fun x => (if key == nameKey then some x.1.name else x.1.labels.lookup key) == some val)

def DB.count (db : DB) (k : UKey) : Nat := (db.records.filter (fun r => r.up == k)).length

/-- `/uploads` with an empty query: uploads having records, newest first, with the row count -/
def DB.listing (db : DB) : List (UKey × Nat) :=
  ((db.uploads.mergeSort (fun a b => keyLe b a)).map (fun k => (k, db.count k))).filter (fun e => e.2 > 0)

end Storage.Upload
