/-
C20 — concurrent id allocation: several `db.NewUpload` id transactions on one database.

Each transaction performs three atomic steps (storage/db/db.go:222-256):
  read-last  `SELECT UploadID FROM Uploads ORDER BY Day DESC, Seq DESC LIMIT 1`
  insert     `INSERT INTO Uploads(UploadID, Day, Seq)` with the PRIMARY KEY check
  commit     `tx.Commit()`
A schedule is any list of (transaction index, ok). `ok = false` means the database refuses the
step (SQLITE_BUSY, lock wait timeout, deadlock victim): NewUpload returns the error and the deferred
Rollback runs. With `ok = true` an insert whose key is already committed fails on the primary key;
an insert whose key is pending in another open transaction waits (the step is a no-op).
Every lock manager / isolation level that enforces the primary key is some choice of the flags.
Core Lean only.
-/
import Model.Storage.Upload

namespace Storage.IdAlloc
open Storage.Upload (UKey lastUpload nextKey)

inductive Pc where
  | start
  | read (last : Option UKey)
  | inserted (k : UKey)
  | committed (k : UKey)
  | failed
  deriving Repr

structure Txn where
  day : Nat
  pc : Pc
  deriving Repr

structure St where
  rows : List UKey
  txns : List Txn
  deriving Repr

def pendingOf : Txn → Option UKey
  | ⟨_, Pc.inserted k⟩ => some k
  | _ => none

/-- keys inserted by open transactions -/
def pending (txns : List Txn) : List UKey := txns.filterMap pendingOf

def returnedOf : Txn → Option UKey
  | ⟨_, Pc.committed k⟩ => some k
  | _ => none

/-- ids handed to callers of NewUpload -/
def returned (txns : List Txn) : List UKey := txns.filterMap returnedOf

def step (s : St) (i : Nat) (ok : Bool) : St :=
  match s.txns[i]? with
  | none => s
  | some t =>
    match t.pc with
    | Pc.start =>
      { s with txns := s.txns.set i { t with pc := if ok then Pc.read (lastUpload s.rows) else Pc.failed } }
    | Pc.read last =>
      let k := nextKey t.day last
      if !ok || k ∈ s.rows then { s with txns := s.txns.set i { t with pc := Pc.failed } }
      else if k ∈ pending s.txns then s
      else { s with txns := s.txns.set i { t with pc := Pc.inserted k } }
    | Pc.inserted k =>
      if ok then { rows := s.rows ++ [k], txns := s.txns.set i { t with pc := Pc.committed k } }
      else { s with txns := s.txns.set i { t with pc := Pc.failed } }
    | Pc.committed _ => s
    | Pc.failed => s

def run : List (Nat × Bool) → St → St
  | [], s => s
  | (i, ok) :: rest, s => run rest (step s i ok)

def init (rows : List UKey) (days : List Nat) : St :=
  { rows := rows, txns := days.map fun d => ⟨d, Pc.start⟩ }

end Storage.IdAlloc
