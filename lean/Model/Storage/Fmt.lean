/-
Model of the legacy storage/benchfmt package (Printer, Reader, name labels), of record insertion
with coalescing (storage/db/db.go InsertRecord / insertLabel / flush) and of the server's upload and
search paths (storage/app/upload.go, query.go; storage/client.go) — property C19.
Core Lean only.
-/
import Model.Base.Bytes
import Model.Storage.Query

namespace Storage.Fmt
open Bytes Storage.Query

/-! ### Labels: a Go `map[string]string`, kept sorted by key (iteration order of a Go map is never
observed: every loop over a map in the modelled code either sorts the keys or is order-insensitive). -/

abbrev Labels := List (Bytes × Bytes)

def Labels.get (l : Labels) (k : Bytes) : Bytes :=
  match l.find? (·.1 == k) with
  | some kv => kv.2
  | none => []

def Labels.has (l : Labels) (k : Bytes) : Bool := l.any (·.1 == k)

def Labels.set : Labels → Bytes → Bytes → Labels
  | [], k, v => [(k, v)]
  | (k', v') :: rest, k, v =>
    if k' == k then (k, v) :: rest
    else if blt k k' then (k, v) :: (k', v') :: rest
    else (k', v') :: Labels.set rest k v

def Labels.erase (l : Labels) (k : Bytes) : Labels := l.filter (·.1 != k)

def Labels.ofList (kvs : List (Bytes × Bytes)) : Labels := kvs.foldl (fun l kv => l.set kv.1 kv.2) []

/-- `Labels.Equal`: same length and every key of `l` has the same value in `b`
(a key missing in `b` reads as ""). -/
def Labels.equal (l b : Labels) : Bool :=
  l.length == b.length && l.all fun kv => kv.2 == b.get kv.1

/-! ### Result -/

structure Result where
  labels : Labels
  /-- `none` is the nil map left by the name cache when the very first name is empty -/
  nameLabels : Option Labels
  lineNum : Nat
  content : Bytes
  deriving DecidableEq, Repr

def Result.nameL (r : Result) : Labels := r.nameLabels.getD []

/-- `Result.SameLabels` -/
def Result.sameLabels (r b : Result) : Bool :=
  r.labels.equal b.labels && r.nameL.equal b.nameL

/-! ### Printer -/

def nl : UInt8 := 10
def cr : UInt8 := 13

/-- `Printer.Print`: returns the bytes written and the new printer state (`p.labels`, nil = []). -/
def printResult (prev : Labels) (r : Result) : Bytes × Labels :=
  let removed := prev.filter fun kv => (r.labels.get kv.1).isEmpty
  let changed := r.labels.filter fun kv => !kv.2.isEmpty && prev.get kv.1 != kv.2
  let out :=
    (removed.flatMap fun kv => kv.1 ++ [cColon, nl]) ++
    (changed.flatMap fun kv => kv.1 ++ [cColon, cSpace] ++ kv.2 ++ [nl]) ++
    r.content ++ [nl]
  (out, r.labels)

def printAll (prev : Labels) : List Result → Bytes
  | [] => []
  | r :: rs => let (o, p) := printResult prev r; o ++ printAll p rs

/-! ### name labels -/

def cDash : UInt8 := 45
def cPlus : UInt8 := 43
def cSlash : UInt8 := 47
def cEq : UInt8 := 61

def decVal (ds : Bytes) : Nat := ds.foldl (fun n d => n * 10 + (d.toNat - 48)) 0

/-- `strconv.Atoi(s)` succeeds: optional sign, one or more digits, value in the int64 range -/
def atoiOk (s : Bytes) : Bool :=
  let (neg, ds) := match s with
    | c :: r => if c == cDash then (true, r) else if c == cPlus then (false, r) else (false, s)
    | [] => (false, [])
  !ds.isEmpty && ds.all isDigit &&
    (if neg then decVal ds ≤ 9223372036854775808 else decVal ds ≤ 9223372036854775807)

/-- split at the last occurrence of `c`: `(before, after)` -/
def splitLast (c : UInt8) (s : Bytes) : Option (Bytes × Bytes) :=
  let after := (s.reverse.takeWhile (· != c)).reverse
  if after.length == s.length then none else some (s.take (s.length - after.length - 1), after)

/-- `strings.Split(s, sep)` for a one-byte separator -/
def splitOn (c : UInt8) : Bytes → List Bytes
  | [] => [[]]
  | x :: rest =>
    match splitOn c rest with
    | [] => [[x]]
    | p :: ps => if x == c then [] :: p :: ps else (x :: p) :: ps

/-- split at the first occurrence of `c` -/
def splitFirst (c : UInt8) (s : Bytes) : Option (Bytes × Bytes) :=
  let before := s.takeWhile (· != c)
  if before.length == s.length then none else some (before, s.drop (before.length + 1))

def natToDec (n : Nat) : Bytes := ofString (toString n)

def subLabels : Nat → List Bytes → Labels → Labels
  | _, [], l => l
  | i, sub :: rest, l =>
    let l := match splitFirst cEq sub with
      | some (k, v) => l.set k v
      | none => l.set (ofString "sub" ++ natToDec i) sub
    subLabels (i + 1) rest l

/-- `parseNameLabels` -/
def parseNameLabels (name : Bytes) : Labels :=
  let (name, l) : Bytes × Labels :=
    match splitLast cDash name with
    | some (before, after) =>
      if atoiOk after then (before, Labels.set [] (ofString "gomaxprocs") after) else (name, [])
    | none => (name, [])
  match splitOn cSlash name with
  | [] => l
  | p :: subs => subLabels 1 subs (l.set (ofString "name") p)

/-! ### Reader -/

/-- `bufio.ScanLines`: split at '\n', drop one trailing '\r', no token for a trailing empty rest -/
def dropCR (l : Bytes) : Bytes :=
  match l.reverse with
  | c :: r => if c == cr then r.reverse else l
  | [] => l

/-- `cur` holds the bytes of the line being scanned in REVERSE order (linear time) -/
def scanLinesGo : Bytes → Bytes → List Bytes
  | cur, [] => if cur.isEmpty then [] else [dropCR cur.reverse]
  | cur, c :: rest =>
    if c == nl then dropCR cur.reverse :: scanLinesGo [] rest else scanLinesGo (c :: cur) rest

def scanLines (data : Bytes) : List Bytes := scanLinesGo [] data

/-- the rune loop of `parseKeyValueLine` (ASCII classification): position of the first ':' -/
def kvScan : Nat → Bytes → Option Nat
  | _, [] => none
  | i, c :: rest =>
    if i == 0 && !isAsciiLower c then none
    else if isAsciiSpace c || isAsciiUpper c then none
    else if i > 0 && c == cColon then some i
    else kvScan (i + 1) rest

def isBlank (c : UInt8) : Bool := c == cSpace || c == cTab

/-- `parseKeyValueLine` -/
def parseKeyValueLine (line : Bytes) : Option (Bytes × Bytes) :=
  match kvScan 0 line with
  | none => none
  | some i =>
    let key := line.take i
    let val := line.drop (i + 1)
    if val.isEmpty then some (key, [])
    else
      let v := val.dropWhile isBlank
      if v.length < val.length then some (key, v) else none

def benchPrefix : Bytes := ofString "Benchmark"

/-- `parseBenchmarkLine` (ASCII white space) -/
def parseBenchmarkLine (line : Bytes) : Option Bytes :=
  let name := line.takeWhile (fun c => !isAsciiSpace c)
  if name.length == line.length then none
  else if hasPrefix name benchPrefix then some (name.drop benchPrefix.length) else none

structure Reader where
  labels : Labels := []
  perm : Option Labels := none
  lineNum : Nat := 0
  lastName : Bytes := []
  lastNameLabels : Option Labels := none
  deriving Repr

/-- `Reader.AddLabels` -/
def Reader.addLabels (r : Reader) (l : Labels) : Reader :=
  { r with perm := some l, labels := l.foldl (fun acc kv => acc.set kv.1 kv.2) r.labels }

/-- `Reader.newResult` with the one-entry name cache -/
def Reader.newResult (r : Reader) (name content : Bytes) : Result × Reader :=
  let r := if r.lastName != name then
      { r with lastName := name, lastNameLabels := some (parseNameLabels name) } else r
  ({ labels := r.labels, nameLabels := r.lastNameLabels, lineNum := r.lineNum, content := content }, r)

/-- the scan loop of one `Reader.Next` call; `havePerm` is fixed at the start of the call -/
def Reader.nextGo (havePerm : Bool) (r : Reader) : List Bytes → Option (Result × Reader × List Bytes)
  | [] => none
  | line :: rest =>
    let r := { r with lineNum := r.lineNum + 1 }
    match parseKeyValueLine line with
    | some (key, value) =>
      if (r.perm.getD []).has key then Reader.nextGo havePerm r rest
      else if value.isEmpty then Reader.nextGo havePerm { r with labels := r.labels.erase key } rest
      else Reader.nextGo havePerm { r with labels := r.labels.set key value } rest
    | none =>
      let r := if !havePerm then
          (if line.isEmpty then { r with perm := some r.labels } else { r with perm := some [] })
        else r
      match parseBenchmarkLine line with
      | some fullName =>
        let (res, r) := r.newResult fullName line
        some (res, r, rest)
      | none => Reader.nextGo havePerm r rest

def Reader.next (r : Reader) (lines : List Bytes) : Option (Result × Reader × List Bytes) :=
  Reader.nextGo r.perm.isSome r lines

/-- all results of a reader over the given lines (`for br.Next() { … br.Result() }`) -/
def Reader.allGo : Nat → Reader → List Bytes → List Result
  | 0, _, _ => []
  | fuel + 1, r, lines =>
    match r.next lines with
    | none => []
    | some (res, r, rest) => res :: Reader.allGo fuel r rest

def Reader.all (r : Reader) (data : Bytes) : List Result :=
  let lines := scanLines data
  Reader.allGo (lines.length + 1) r lines

def readAll (data : Bytes) : List Result := Reader.all {} data

/-! ### InsertRecord / insertLabel / flush -/

structure Upload where
  id : Bytes
  recordid : Nat := 0
  /-- rows queued or written for this upload (the transaction), in insertion order -/
  records : List RecordRow := []
  labels : List LabelRow := []
  /-- `len(u.insertLabelArgs)` -/
  labelArgs : Nat := 0
  lastResult : Option Result := none
  deriving Repr

/-- `flush` as far as the model is concerned: the queues are emptied and `lastResult` forgotten -/
def Upload.flush (u : Upload) : Upload := { u with labelArgs := 0, lastResult := none }

/-- `insertLabel` -/
def Upload.insertLabel (u : Upload) (k v : Bytes) : Upload :=
  let u := if u.labelArgs ≥ 990 then u.flush else u
  { u with labels := u.labels ++ [⟨u.id, u.recordid, k, v⟩], labelArgs := u.labelArgs + 4 }

def appendToLast (recs : List RecordRow) (extra : Bytes) : List RecordRow :=
  match recs.reverse with
  | [] => []
  | r :: before => (({ r with content := r.content ++ extra } : RecordRow) :: before).reverse

/-- `InsertRecord`, the branch that starts a new record -/
def Upload.insertNew (u : Upload) (r : Result) : Upload :=
  let row : RecordRow := ⟨u.id, u.recordid, (printResult [] r).1⟩
  let u := { u with lastResult := some r, records := u.records ++ [row] }
  let u := r.labels.foldl (fun u kv => u.insertLabel kv.1 kv.2) u
  let u := r.nameL.foldl (fun u kv => u.insertLabel kv.1 kv.2) u
  { u with recordid := u.recordid + 1 }

/-- `InsertRecord` -/
def Upload.insertRecord (u : Upload) (r : Result) : Upload :=
  match u.lastResult with
  | some last =>
    if last.sameLabels r then { u with records := appendToLast u.records (r.content ++ [nl]) }
    else u.insertNew r
  | none => u.insertNew r

/-- the PRIMARY KEY (UploadID, RecordID, Name) of RecordLabels is violated -/
def pkClash : List LabelRow → Bool
  | [] => false
  | l :: rest => rest.any (fun m => m.rid == l.rid && m.name == l.name) || pkClash rest

/-! ### the server: processUpload / indexFile -/

structure FileIn where
  name : Bytes        -- file name as given to Client.CreateFile
  content : Bytes
  deriving Repr

/-- `filepath.Base` has already removed directories; upload.go strips up to the last '/' or '\\' -/
def baseName (n : Bytes) : Bytes :=
  (n.reverse.takeWhile (fun c => c != cSlash && c != cBackslash)).reverse

def uploadTimePlaceholder : Bytes := ofString "T"

def metaLabels (id : Bytes) (i : Nat) (user fileName : Bytes) : Labels :=
  let l : Labels := Labels.ofList [(ofString "upload", id),
    (ofString "upload-part", id ++ [cSlash] ++ natToDec i),
    (ofString "upload-time", uploadTimePlaceholder)]
  let n := baseName fileName
  let l := if n.isEmpty then l else l.set (ofString "upload-file") n
  if user.isEmpty then l else l.set (ofString "by") user

/-- `bufio.Scanner` gives up (`ErrTooLong`) on a line of `maxTokenSize` = 64 KiB or more bytes before
its line feed; `run` is the length of the line being scanned -/
def tooLongGo : Nat → Bytes → Bool
  | run, [] => run ≥ 65536
  | run, c :: rest => if c == nl then run ≥ 65536 || tooLongGo 0 rest else tooLongGo (run + 1) rest

def tooLong (data : Bytes) : Bool := tooLongGo 0 data

/-- `indexFile`: `none` when the Reader fails on an over-long line (`br.Err()`), or when the file has
no benchmark line -/
def indexFile (u : Upload) (i : Nat) (user : Bytes) (f : FileIn) : Option Upload :=
  if tooLong f.content then none else
  let lbls := metaLabels u.id i user f.name
  let results := (Reader.addLabels {} lbls).all f.content
  if results.isEmpty then none else some (results.foldl Upload.insertRecord u)

def indexFiles (u : Upload) (user : Bytes) : Nat → List FileIn → Option Upload
  | _, [] => some u
  | i, f :: fs =>
    match indexFile u i user f with
    | none => none
    | some u => indexFiles u user (i + 1) fs

/-- `SELECT UploadID FROM Uploads ORDER BY Day DESC, Seq DESC LIMIT 1`: the newest upload -/
def newestUpload : List UploadRow → Option UploadRow
  | [] => none
  | u :: rest =>
    match newestUpload rest with
    | none => some u
    | some v => if newer v u then some v else some u

/-- `NewUpload`: the id is `day.N`, N one more than the newest upload's number when that upload is of
the same day -/
def nextSeq (db : DB) (day : Bytes) : Nat :=
  match newestUpload db.uploads with
  | none => 1
  | some last => if hasPrefix last.id day then last.seq + 1 else 1

/-- one upload request: the Uploads row is committed first (an id that already exists violates the
primary key of Uploads: `NewUpload` fails and nothing changes); the records only if every file
indexes and no key constraint fails. Returns the new state, the id and whether the upload succeeded. -/
def processUpload (db : DB) (day user : Bytes) (files : List FileIn) : DB × Bytes × Bool :=
  let seq := nextSeq db day
  let id := day ++ [46] ++ natToDec seq
  if db.uploads.any (·.id == id) then (db, id, false) else
  let db := { db with uploads := db.uploads ++ [⟨id, day, seq⟩] }
  match indexFiles { id := id } user 0 files with
  | none => (db, id, false)
  | some u =>
    if pkClash u.labels then (db, id, false)
    else ({ db with records := db.records ++ u.records, labels := db.labels ++ u.labels }, id, true)

/-! ### the query paths -/

/-- `db.Query(q)` iterated to the end: every stored record is decoded by a fresh Reader -/
def dbQuery (db : DB) (q : Bytes) : Except QErr (List Result) := do
  let recs ← queryRecords db q
  pure (recs.flatMap fun r => readAll r.content)

/-- `/search` printed by one Printer, decoded by the client's Reader -/
def clientQuery (db : DB) (q : Bytes) : Except QErr (List Result) := do
  let rs ← dbQuery db q
  pure (readAll (printAll [] rs))

end Storage.Fmt
