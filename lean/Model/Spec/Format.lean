/-
Specification of the benchmark format's *line and scoping rules* (property C02), written
without any of the reader's machinery: no slot array, no index, no queue, no line counter
carried in a mutable result, no per-file reset of a reused object.

  text ──lines──▶ numbered lines ──classify──▶ {bench, unit, kv, ignored}
  running configuration = the fold of the kv lines so far, as a finite MAP
        (latest value per key; a key set to the empty value is removed)
  bench line, well formed  ↦ result(line number, name, iterations, measurements, map at that line)
  bench / unit line, malformed ↦ error positioned at (file name, line number)
  unit line ↦ one record per *new* (unit, key) setting; a repeated identical setting is silent;
             a different value for a setting already made (in this or an earlier file) is an error
  ignored line ↦ nothing

The *token-level* grammar of a single line (how a line splits into fields, what a key may look
like, the order in which a benchmark line's errors are reported) is shared with the model
(`Fmt.splitField`, `Fmt.parseKeyValueLine`, `Fmt.parseBenchmarkLine`, `Fmt.unitFields`): it is
tied to the code by the correspondence run, and number/unit conversion is the subject of C03/C04.
What this file specifies independently — and what `C02.reader_refines_spec` proves the model
against — is everything *between* lines: splitting, numbering, classification, scoping of
configuration and unit metadata, the order of records, and (for several files) labels and
the absence of leaks.

Core Lean only.
-/
import Model.Fmt.Reader
import Model.Fmt.Files

namespace Spec.Format
open Fmt

/-! ### Configuration as a finite map -/

/-- key ↦ (value, is-file-configuration); keys are pairwise distinct by construction. -/
abbrev CMap := List (Bytes × Bytes × Bool)

namespace CMap
def del (m : CMap) (k : Bytes) : CMap := m.filter (fun e => !(e.1 == k))
def put (m : CMap) (k v : Bytes) (file : Bool) : CMap := (k, v, file) :: del m k
def get (m : CMap) (k : Bytes) : Option (Bytes × Bool) := List.lookup k m
/-- `key: value` — an empty value removes the key -/
def assign (m : CMap) (k v : Bytes) (file : Bool) : CMap :=
  if v.isEmpty then del m k else put m k v file
end CMap

/-! ### Lines -/

/-- Split at every LF (always at least one piece). -/
def splitLF : Bytes → List Bytes
  | [] => [[]]
  | c :: rest =>
    if c == 10 then [] :: splitLF rest
    else match splitLF rest with
      | l :: ls => (c :: l) :: ls
      | [] => [[c]]

def stripCR (l : Bytes) : Bytes := if l.getLast? == some 13 then l.dropLast else l

/-- The lines of a text: LF-separated pieces, a final empty piece (text ends in LF, or is empty)
is not a line, and one CR before the line end is not part of the line. -/
def lines (text : Bytes) : List Bytes :=
  let ps := splitLF text
  (if ps.getLast? == some [] then ps.dropLast else ps).map stripCR

/-! ### Classification -/

inductive Kind where
  | bench | unit | kv | ignored
  deriving Repr, DecidableEq

/-- What kind of line is this? A line that is nothing but `Benchmark<name>` is ignored
(`go test -v` prints it when a benchmark starts). -/
def classify (O : Oracles) (line : Bytes) : Kind :=
  if Bytes.hasPrefix line benchmarkPrefix then
    (if parseBenchmarkLine O line = .skip then .ignored else .bench)
  else if (isUnitLine O.uc line).isSome then .unit
  else if (parseKeyValueLine O.uc line).isSome then .kv
  else .ignored

/-! ### Records -/

structure SRes where
  config : CMap
  name : Bytes
  iters : Int
  values : List Val
  fileName : Bytes
  line : Nat
  deriving Repr, DecidableEq

inductive SRec where
  | result (r : SRes)
  | err (e : SyntaxErr)
  | unit (u : UnitMeta)
  deriving Repr, DecidableEq

def ofRecNoResult : Rec → SRec
  | .err e => .err e
  | .unit u => .unit u
  | .result r => .result ⟨[], r.name, r.iters, r.values, r.fileName, r.line⟩

/-- What line number `n` with content `line` contributes, given the configuration and the unit
metadata in force before it. -/
def lineRecs (O : Oracles) (fileName : Bytes) (cfg : CMap) (units : UnitMap) (n : Nat)
    (line : Bytes) : CMap × UnitMap × List SRec :=
  match classify O line with
  | .ignored => (cfg, units, [])
  | .kv =>
    match parseKeyValueLine O.uc line with
    | some (k, v) => (cfg.assign k v true, units, [])
    | none => (cfg, units, [])
  | .bench =>
    match parseBenchmarkLine O line with
    | .ok name iters vals => (cfg, units, [.result ⟨cfg, name, iters, vals, fileName, n⟩])
    | .err m => (cfg, units, [.err ⟨fileName, n, m⟩])
    | .skip => (cfg, units, [])
  | .unit =>
    match isUnitLine O.uc line with
    | some rest =>
      let (units', q) := parseUnitLine O fileName n units rest
      (cfg, units', q.map ofRecNoResult)
    | none => (cfg, units, [])

/-- Lines `n, n+1, …` -/
def readFrom (O : Oracles) (fileName : Bytes) : CMap → UnitMap → Nat → List Bytes → List SRec × UnitMap
  | _, units, _, [] => ([], units)
  | cfg, units, n, l :: ls =>
    let (cfg', units', q) := lineRecs O fileName cfg units n l
    let (qs, u) := readFrom O fileName cfg' units' (n + 1) ls
    (q ++ qs, u)

/-- The name a position reports for an unnamed input. -/
def displayName (fileName : Bytes) : Bytes := if fileName.isEmpty then str "<unknown>" else fileName

/-- The record stream of one text: `labels` is the configuration supplied by the tool,
`units` the unit metadata already known. Also returns the unit metadata known afterwards. -/
def read (O : Oracles) (fileName : Bytes) (labels : CMap) (units : UnitMap) (text : Bytes) :
    List SRec × UnitMap :=
  readFrom O (displayName fileName) labels units 1 (lines text)

/-! ### Several files -/

/-- `label=path` entry → (label, path); only when labels are allowed. -/
def splitEntry (allowLabels : Bool) (e : Bytes) : Option Bytes × Bytes :=
  let (before, after) := e.span (fun c => !(c == 61))
  if allowLabels && !after.isEmpty then (some before, after.drop 1) else (none, e)

/-- Labels the entries of a path list must get, in order: a labelled entry keeps its label;
an unlabelled path that occurs once keeps its name; the occurrences of an unlabelled path
that occurs several times are numbered `p#0, p#1, …` in order. -/
def labelsFrom (all : List (Option Bytes × Bytes)) :
    List (Option Bytes × Bytes) → List (Option Bytes × Bytes) → List Bytes
  | _, [] => []
  | before, (some l, p) :: rest => l :: labelsFrom all (before ++ [(some l, p)]) rest
  | before, (none, p) :: rest =>
    let same (es : List (Option Bytes × Bytes)) := (es.filter (fun e => e.1.isNone && e.2 == p)).length
    (if same all == 1 then p else p ++ [35] ++ decimal (same before))
      :: labelsFrom all (before ++ [(none, p)]) rest

def labels (paths : List Bytes) (allowLabels : Bool) : List Bytes :=
  let es := paths.map (splitEntry allowLabels)
  labelsFrom es [] es

/-- (label, path, is-stdin) of every input, in reading order. An empty list with stdin allowed
means: read stdin, under the name `-`. -/
def inputs (paths : List Bytes) (allowStdin allowLabels : Bool) : List (Bytes × Bytes × Bool) :=
  if allowStdin && paths.isEmpty then [([45], [45], true)]
  else
    let ps := paths.map (fun e => (splitEntry allowLabels e).2)
    (labels paths allowLabels).zip (ps.map (fun p => (p, allowStdin && p == [45])))

structure FilesSpec where
  recs : List SRec
  failed : Option Bytes
  units : UnitMap
  /-- number of result records of every input that was opened, in order -/
  results : List Nat
  deriving Repr

def SRec.isResult : SRec → Bool
  | .result _ => true
  | _ => false

/-- File after file: each is read on its own, under its own label, starting from an empty
configuration; only unit metadata is handed on. A file that cannot be opened ends the run. -/
def readFiles (O : Oracles) (fs : FS) : UnitMap → Bytes → List (Bytes × Bytes × Bool) → FilesSpec
  | units, _, [] => ⟨[], none, units, []⟩
  | units, stdin, (label, path, isStdin) :: rest =>
    match (if isStdin then some stdin else fs.open path) with
    | none => ⟨[], some path, units, []⟩
    | some text =>
      let (q, units') := read O path (CMap.assign [] dotFile label false) units text
      let out := readFiles O fs units' (if isStdin then [] else stdin) rest
      { out with recs := q ++ out.recs, results := (q.filter SRec.isResult).length :: out.results }

end Spec.Format
