/-
Specification of the benchmark format's *line and scoping rules* (property C02), written
without any of the reader's machinery: no slot array, no index, no queue, no line counter
carried in a mutable result, no per-file reset of a reused object.

  text ──lines──▶ numbered lines ──classify──▶ {bench, unit, kv, ignored}
  running configuration = the fold of the kv lines so far, as a finite MAP
        (latest value per key; a key set to the empty value is removed)
  bench line, well formed  ↦ result(line number, name, iterations, measurements, map at that line)
  bench / unit line, malformed ↦ error positioned at (file name, line number)
  unit line ↦ one record per *new* (unit, key) setting; a repeated identical setting is silent;
             a different value for a setting already made (in this or an earlier file) is an error
  ignored line ↦ nothing

The grammar of a single line is specified here too, declaratively and without reference to the
reader's scanning algorithms (`Fmt.splitField` with its ASCII bit-mask fast path and rune slow
path, `Fmt.parseKeyValueLine`, `Fmt.parseBenchmarkLine`, `Fmt.parseUnitLine`):

  a line is a sequence of runes (UTF-8, an undecodable byte is a rune U+FFFD of its own);
  the *pieces* of a line are what lies between its white-space runes; its *fields* are the
  non-empty pieces;
  key/value line : the runes before the first `:` form the key — at least one, the first a
      lower-case letter, none white space or upper case; the value is what follows the colon,
      either nothing or, after at least one blank or tab, the rest (leading blanks/tabs dropped);
  benchmark line : `Benchmark`, then the first piece is the name (possibly empty); if there is
      no white space at all the line is just an announcement and is ignored; the fields after
      the name are the iteration count and then value/unit pairs, errors reported left to right;
  unit line      : the first piece is exactly `Unit`; the fields after it are the unit and then
      `key=value` settings (key non-empty, split at the first `=`).

Shared with the model are only data types (`Val`, `UnitMeta`, `BenchOut`, …), `decodeRune`, the
parameters (`Oracles`: Unicode predicates, number parsers, unit tidying — see C03/C04) and the
texts of the error messages. `C02.reader_refines_spec` proves the model reader against all of it.

Core Lean only.
-/
import Model.Fmt.Reader
import Model.Fmt.Files

namespace Spec.Format
open Fmt

/-! ### Configuration as a finite map -/

/-- key ↦ (value, is-file-configuration); keys are pairwise distinct by construction. -/
abbrev CMap := List (Bytes × Bytes × Bool)

namespace CMap
def del (m : CMap) (k : Bytes) : CMap := m.filter (fun e => !(e.1 == k))
def put (m : CMap) (k v : Bytes) (file : Bool) : CMap := (k, v, file) :: del m k
def get (m : CMap) (k : Bytes) : Option (Bytes × Bool) := List.lookup k m
/-- `key: value` — an empty value removes the key -/
def assign (m : CMap) (k v : Bytes) (file : Bool) : CMap :=
  if v.isEmpty then del m k else put m k v file
end CMap

/-! ### Lines -/

/-- Split at every LF (always at least one piece). -/
def splitLF : Bytes → List Bytes
  | [] => [[]]
  | c :: rest =>
    if c == 10 then [] :: splitLF rest
    else match splitLF rest with
      | l :: ls => (c :: l) :: ls
      | [] => [[c]]

def stripCR (l : Bytes) : Bytes := if l.getLast? == some 13 then l.dropLast else l

/-- The lines of a text: LF-separated pieces, a final empty piece (text ends in LF, or is empty)
is not a line, and one CR before the line end is not part of the line. -/
def lines (text : Bytes) : List Bytes :=
  let ps := splitLF text
  (if ps.getLast? == some [] then ps.dropLast else ps).map stripCR

/-! ### Runes, pieces, fields -/

/-- a rune of a line with the bytes that encode it -/
abbrev RuneB := Nat × Bytes

/-- The runes of a byte string, left to right; `skip` bytes still belong to the previous rune.
An undecodable byte is the rune U+FFFD, one byte wide. -/
def runesFrom : Nat → Bytes → List RuneB
  | _, [] => []
  | k + 1, _ :: rest => runesFrom k rest
  | 0, c :: rest =>
    let d := decodeRune (c :: rest)
    (d.1, (c :: rest).take d.2) :: runesFrom (d.2 - 1) rest

def runes (x : Bytes) : List RuneB := runesFrom 0 x

/-- back to bytes -/
def enc (rs : List RuneB) : Bytes := rs.flatMap (·.2)

def isSp (uc : UC) (r : RuneB) : Bool := uc.space r.1

/-- Split at every separator rune (always at least one, possibly empty, piece). -/
def splitAtSep (sp : RuneB → Bool) : List RuneB → List (List RuneB)
  | [] => [[]]
  | r :: rs =>
    if sp r then [] :: splitAtSep sp rs
    else match splitAtSep sp rs with
      | w :: ws => (r :: w) :: ws
      | [] => [[r]]

/-- The first piece of a line (possibly empty), whether any white space follows it, and the
fields (non-empty pieces) after it. -/
def firstAndFields (uc : UC) (x : Bytes) : Bytes × Bool × List Bytes :=
  match splitAtSep (isSp uc) (runes x) with
  | [] => ([], false, [])
  | p0 :: later => (enc p0, !later.isEmpty, (later.filter (fun p => !p.isEmpty)).map enc)

/-! ### Key/value lines -/

def isColon (r : RuneB) : Bool := r.1 == 58

def isBlankByte (c : UInt8) : Bool := c == 32 || c == 9

/-- `key: value` → (key, value); `none` if the line is not of that shape. -/
def kvLine (uc : UC) (line : Bytes) : Option (Bytes × Bytes) :=
  let rs := runes line
  let key := rs.takeWhile (fun r => !isColon r)
  match rs.dropWhile (fun r => !isColon r) with
  | [] => none                                             -- no colon
  | _ :: after =>
    match key with
    | [] => none                                           -- nothing before the colon
    | k0 :: _ =>
      if uc.lower k0.1 && key.all (fun r => !uc.space r.1 && !uc.upper r.1) then
        match enc after with
        | [] => some (enc key, [])                         -- `key:` — value omitted
        | c :: v =>
          if isBlankByte c then some (enc key, (c :: v).dropWhile isBlankByte) else none
      else none

/-! ### Benchmark lines -/

def msgMissingIters : Bytes := str "missing iteration count"
def msgMissingMeasurements : Bytes := str "missing measurements"
def msgMissingUnits : Bytes := str "missing units"
def msgMissingUnit : Bytes := str "missing unit"
def msgExpectedKV : Bytes := str "expected key=value"

/-- A measurement is reported in its base unit; the written value and unit are kept exactly
when the unit changed. -/
def mkVal (O : Oracles) (x : UInt64) (u : Bytes) : Val :=
  if (O.tidy x u).2 == u then { value := x, unit := u, origValue := 0, origUnit := [] }
  else { value := (O.tidy x u).1, unit := (O.tidy x u).2, origValue := x, origUnit := u }

/-- value/unit pairs, left to right; the first thing wrong is what is reported -/
def measurements (O : Oracles) : List Bytes → Except Bytes (List Val)
  | [] => .ok []
  | [v] =>
    match O.atof v with
    | .error e => .error (e.msg "parsing measurement: ")
    | .ok _ => .error msgMissingUnits
  | v :: u :: rest =>
    match O.atof v with
    | .error e => .error (e.msg "parsing measurement: ")
    | .ok x =>
      match measurements O rest with
      | .error m => .error m
      | .ok vs => .ok (mkVal O x u :: vs)

/-- A line that starts with `Benchmark`. -/
def benchLine (O : Oracles) (line : Bytes) : BenchOut :=
  match firstAndFields O.uc (line.drop 9) with
  | (_, false, _) => .skip                                 -- no white space: an announcement
  | (_, true, []) => .err msgMissingIters
  | (name, true, it :: ms) =>
    match O.atoi it with
    | .error e => .err (e.msg "parsing iteration count: ")
    | .ok n =>
      if ms.isEmpty then .err msgMissingMeasurements
      else match measurements O ms with
        | .error m => .err m
        | .ok vs => .ok name n vs

/-! ### Unit lines -/

/-- The fields after `Unit`, if `Unit` is the line's first piece. -/
def unitLine (uc : UC) (line : Bytes) : Option (List Bytes) :=
  match firstAndFields uc line with
  | (first, _, fields) => if first == unitPrefix then some fields else none

/-- `key=value`: split at the first `=`, the key must not be empty. -/
def unitKV (f : Bytes) : Option (Bytes × Bytes) :=
  match f.dropWhile (fun c => !(c == 61)) with
  | [] => none
  | _ :: v =>
    let key := f.takeWhile (fun c => !(c == 61))
    if key.isEmpty then none else some (key, v)

/-! ### Records -/

structure SRes where
  config : CMap
  name : Bytes
  iters : Int
  values : List Val
  fileName : Bytes
  line : Nat
  deriving Repr, DecidableEq

inductive SRec where
  | result (r : SRes)
  | err (e : SyntaxErr)
  | unit (u : UnitMeta)
  deriving Repr, DecidableEq

def ofRecNoResult : Rec → SRec
  | .err e => .err e
  | .unit u => .unit u
  | .result r => .result ⟨[], r.name, r.iters, r.values, r.fileName, r.line⟩

/-- One `key=value` field of a unit line against the metadata known so far: a new setting is
recorded and reported; a repeated identical setting is silent; a different value for a setting
already made is an error and changes nothing. -/
def unitStep (fileName : Bytes) (n : Nat) (unit tidyUnit : Bytes) (st : UnitMap × List SRec)
    (f : Bytes) : UnitMap × List SRec :=
  match unitKV f with
  | none => (st.1, st.2 ++ [.err ⟨fileName, n, msgExpectedKV⟩])
  | some (k, v) =>
    match st.1.get tidyUnit k with
    | some have_ =>
      if have_.value == v then st
      else (st.1, st.2 ++ [.err ⟨fileName, n,
              str "metadata " ++ k ++ str " of unit " ++ unit ++ str " already set to " ++ have_.value⟩])
    | none =>
      let md : UnitMeta := ⟨tidyUnit, k, unit, v, fileName, n⟩
      (st.1 ++ [md], st.2 ++ [.unit md])

/-- The records of a unit line whose fields after `Unit` are `toks`. Metadata is filed under
the unit's base form. -/
def unitRecs (O : Oracles) (fileName : Bytes) (n : Nat) (units : UnitMap) (toks : List Bytes) :
    UnitMap × List SRec :=
  match toks with
  | [] => (units, [.err ⟨fileName, n, msgMissingUnit⟩])
  | unit :: kvs =>
    kvs.foldl (unitStep fileName n unit (O.tidy 0x3FF0000000000000 unit).2) (units, [])

/-! ### Classification -/

inductive Kind where
  | bench | unit | kv | ignored
  deriving Repr, DecidableEq

/-- What kind of line is this? A line that is nothing but `Benchmark<name>` is ignored
(`go test -v` prints it when a benchmark starts). -/
def classify (O : Oracles) (line : Bytes) : Kind :=
  if Bytes.hasPrefix line benchmarkPrefix then
    (if benchLine O line = .skip then .ignored else .bench)
  else if (unitLine O.uc line).isSome then .unit
  else if (kvLine O.uc line).isSome then .kv
  else .ignored

/-- What line number `n` with content `line` contributes, given the configuration and the unit
metadata in force before it. -/
def lineRecs (O : Oracles) (fileName : Bytes) (cfg : CMap) (units : UnitMap) (n : Nat)
    (line : Bytes) : CMap × UnitMap × List SRec :=
  match classify O line with
  | .ignored => (cfg, units, [])
  | .kv =>
    match kvLine O.uc line with
    | some (k, v) => (cfg.assign k v true, units, [])
    | none => (cfg, units, [])
  | .bench =>
    match benchLine O line with
    | .ok name iters vals => (cfg, units, [.result ⟨cfg, name, iters, vals, fileName, n⟩])
    | .err m => (cfg, units, [.err ⟨fileName, n, m⟩])
    | .skip => (cfg, units, [])
  | .unit =>
    match unitLine O.uc line with
    | some toks =>
      let r := unitRecs O fileName n units toks
      (cfg, r.1, r.2)
    | none => (cfg, units, [])

/-- Lines `n, n+1, …` -/
def readFrom (O : Oracles) (fileName : Bytes) : CMap → UnitMap → Nat → List Bytes → List SRec × UnitMap
  | _, units, _, [] => ([], units)
  | cfg, units, n, l :: ls =>
    let (cfg', units', q) := lineRecs O fileName cfg units n l
    let (qs, u) := readFrom O fileName cfg' units' (n + 1) ls
    (q ++ qs, u)

/-- The name a position reports for an unnamed input. -/
def displayName (fileName : Bytes) : Bytes := if fileName.isEmpty then str "<unknown>" else fileName

/-- The record stream of one text: `labels` is the configuration supplied by the tool,
`units` the unit metadata already known. Also returns the unit metadata known afterwards. -/
def read (O : Oracles) (fileName : Bytes) (labels : CMap) (units : UnitMap) (text : Bytes) :
    List SRec × UnitMap :=
  readFrom O (displayName fileName) labels units 1 (lines text)

/-! ### The line-length limit -/

/-- A line (LF-free run, a CR before the LF included) of this many bytes or more cannot be read. -/
def lineLimit : Nat := 65536

def rawPieces (text : Bytes) : List Bytes :=
  let ps := splitLF text
  if ps.getLast? == some [] then ps.dropLast else ps

/-- The lines up to the first over-long one, and whether there is an over-long one. -/
def linesLimited (text : Bytes) : List Bytes × Bool :=
  let ps := rawPieces text
  ((ps.takeWhile (fun p => p.length < lineLimit)).map stripCR, ps.any (fun p => lineLimit ≤ p.length))

/-- what the reader reports when it gives up: `file:lines-read: bufio.Scanner: token too long` -/
def tooLong (fileName : Bytes) (linesRead : Nat) : Bytes :=
  fileName ++ [58] ++ decimal linesRead ++ str ": bufio.Scanner: token too long"

/-- `read` with the limit: the records of the lines before the first over-long line, the unit
metadata, and the fatal error if there is an over-long line. -/
def readLimited (O : Oracles) (fileName : Bytes) (labels : CMap) (units : UnitMap) (text : Bytes) :
    List SRec × UnitMap × Option Bytes :=
  let ls := linesLimited text
  let r := readFrom O (displayName fileName) labels units 1 ls.1
  (r.1, r.2, if ls.2 then some (tooLong (displayName fileName) ls.1.length) else none)

/-! ### Several files -/

/-- `label=path` entry → (label, path); only when labels are allowed. -/
def splitEntry (allowLabels : Bool) (e : Bytes) : Option Bytes × Bytes :=
  let (before, after) := e.span (fun c => !(c == 61))
  if allowLabels && !after.isEmpty then (some before, after.drop 1) else (none, e)

/-- Labels the entries of a path list must get, in order: a labelled entry keeps its label;
an unlabelled path that occurs once keeps its name; the occurrences of an unlabelled path
that occurs several times are numbered `p#0, p#1, …` in order. -/
def labelsFrom (all : List (Option Bytes × Bytes)) :
    List (Option Bytes × Bytes) → List (Option Bytes × Bytes) → List Bytes
  | _, [] => []
  | before, (some l, p) :: rest => l :: labelsFrom all (before ++ [(some l, p)]) rest
  | before, (none, p) :: rest =>
    let same (es : List (Option Bytes × Bytes)) := (es.filter (fun e => e.1.isNone && e.2 == p)).length
    (if same all == 1 then p else p ++ [35] ++ decimal (same before))
      :: labelsFrom all (before ++ [(none, p)]) rest

def labels (paths : List Bytes) (allowLabels : Bool) : List Bytes :=
  let es := paths.map (splitEntry allowLabels)
  labelsFrom es [] es

/-- (label, path, is-stdin) of every input, in reading order. An empty list with stdin allowed
means: read stdin, under the name `-`. -/
def inputs (paths : List Bytes) (allowStdin allowLabels : Bool) : List (Bytes × Bytes × Bool) :=
  if allowStdin && paths.isEmpty then [([45], [45], true)]
  else
    let ps := paths.map (fun e => (splitEntry allowLabels e).2)
    (labels paths allowLabels).zip (ps.map (fun p => (p, allowStdin && p == [45])))

structure FilesSpec where
  recs : List SRec
  failed : Option Bytes
  units : UnitMap
  /-- number of result records of every input that was opened, in order -/
  results : List Nat
  deriving Repr

def SRec.isResult : SRec → Bool
  | .result _ => true
  | _ => false

/-- File after file: each is read on its own, under its own label, starting from an empty
configuration; only unit metadata is handed on. A file that cannot be opened ends the run. -/
def readFiles (O : Oracles) (fs : FS) : UnitMap → Bytes → List (Bytes × Bytes × Bool) → FilesSpec
  | units, _, [] => ⟨[], none, units, []⟩
  | units, stdin, (label, path, isStdin) :: rest =>
    match (if isStdin then some stdin else fs.open path) with
    | none => ⟨[], some path, units, []⟩
    | some text =>
      let (q, units') := read O path (CMap.assign [] dotFile label false) units text
      let out := readFiles O fs units' (if isStdin then [] else stdin) rest
      { out with recs := q ++ out.recs, results := (q.filter SRec.isResult).length :: out.results }

structure FilesSpecLim where
  recs : List SRec
  failed : Option Bytes
  ioErr : Option Bytes
  units : UnitMap
  results : List Nat
  deriving Repr

/-- `readFiles` with the limit: an over-long line ends the whole run after the records before it. -/
def readFilesLimited (O : Oracles) (fs : FS) : UnitMap → Bytes → List (Bytes × Bytes × Bool) → FilesSpecLim
  | units, _, [] => ⟨[], none, none, units, []⟩
  | units, stdin, (label, path, isStdin) :: rest =>
    match (if isStdin then some stdin else fs.open path) with
    | none => ⟨[], some path, none, units, []⟩
    | some text =>
      let r := readLimited O path (CMap.assign [] dotFile label false) units text
      match r.2.2 with
      | some e => ⟨r.1, none, some e, r.2.1, [(r.1.filter SRec.isResult).length]⟩
      | none =>
        let out := readFilesLimited O fs r.2.1 (if isStdin then [] else stdin) rest
        { out with recs := r.1 ++ out.recs, results := (r.1.filter SRec.isResult).length :: out.results }

end Spec.Format
