/-
Specification-level oracle for C13 (benchmath summaries and comparisons). Short, definitional,
exact rational arithmetic; independent of the algorithmic model in Model/Math.

* order statistics / median / mode / mean of a finite sample as exact rationals
* `coverage n lo hi`  = Σ_{k ∈ [lo,hi)} C(n,k)/2ⁿ : exact coverage of the median interval (X₍lo₎, X₍hi₎)
* `pPerm x1 x2`       = exact permutation p-value of the Mann–Whitney U test by brute force over all
                        C(N, n1) labelings of the pooled sample; two-sided = min(1, 2·min(lower, upper))
* `minP n`            = 2 / C(2n, n)
* `judge…`            : verdicts ("ok" or a reason) on what the implementation returned/printed

Core Lean only.
-/
import Model.Base.F64
import Model.Base.Bytes

namespace Spec.MathSpec

/-! ### exact permutation p-value (generic in the value type) -/
section
variable {α : Type} [LT α] [DecidableLT α] [DecidableEq α]

/-- weight of one (first, second) pair in 2·U: 2 if first > second, 1 on a tie -/
def pairW (a b : α) : Nat := if b < a then 2 else if a = b then 1 else 0

/-- 2·U = 2·#{(a,b) ∈ x1×x2 : a > b} + #{(a,b) : a = b} -/
def twoU (x1 x2 : List α) : Nat := (x1.map fun a => (x2.map fun b => pairW a b).sum).sum

/-- all ways to label `n` positions of `l` "first sample" (chosen, rest) -/
def splits : Nat → List α → List (List α × List α)
  | 0, l => [([], l)]
  | _ + 1, [] => []
  | n + 1, a :: l =>
      ((splits n l).map fun p => (a :: p.1, p.2)) ++ ((splits (n + 1) l).map fun p => (p.1, a :: p.2))

/-- 2·U of every labeling of the pooled sample with n1 firsts (equally likely under H₀) -/
def nullDist (n1 : Nat) (pool : List α) : List Nat := (splits n1 pool).map fun p => twoU p.1 p.2

def countLE (d : List Nat) (u : Nat) : Nat := (d.filter (fun x => decide (x ≤ u))).length
def countGE (d : List Nat) (u : Nat) : Nat := (d.filter (fun x => decide (u ≤ x))).length

def rmin (a b : Rat) : Rat := if a ≤ b then a else b

/-- P(U ≤ observed) -/
def tailLower (x1 x2 : List α) : Rat :=
  let d := nullDist x1.length (x1 ++ x2)
  ((countLE d (twoU x1 x2) : Nat) : Rat) / ((d.length : Nat) : Rat)

/-- P(U ≥ observed) -/
def tailUpper (x1 x2 : List α) : Rat :=
  let d := nullDist x1.length (x1 ++ x2)
  ((countGE d (twoU x1 x2) : Nat) : Rat) / ((d.length : Nat) : Rat)

/-- twice the smaller tail, capped at 1 -/
def combine2 (a b : Rat) : Rat := rmin 1 (2 * rmin a b)

/-- exact two-sided permutation p-value -/
def pPerm (x1 x2 : List α) : Rat := combine2 (tailLower x1 x2) (tailUpper x1 x2)

end

/-! ### binomial coverage and the minimum p table -/

/-- row n of Pascal's triangle: row 0 = [1], row (n+1) = (0 :: row n) + (row n ++ [0]) -/
def pascalRow : Nat → List Nat
  | 0 => [1]
  | n + 1 => List.zipWith (· + ·) (0 :: pascalRow n) (pascalRow n ++ [0])

/-- C(n,k) by Pascal's rule -/
def choose (n k : Nat) : Nat := (pascalRow n).getD k 0

/-- exact probability that the population median lies between the lo-th and hi-th order statistic
(1-based; 0 and n+1 stand for −∞ and +∞): Σ_{k=lo}^{hi−1} C(n,k) / 2ⁿ -/
def coverage (n lo hi : Nat) : Rat :=
  ((((List.range (hi - lo)).map fun i => choose n (lo + i)).sum : Nat) : Rat) / ((2 ^ n : Nat) : Rat)

/-- smallest attainable two-sided p for two samples of size n: 2 / C(2n, n) -/
def minP (n : Nat) : Rat := (2 : Rat) / ((choose (2 * n) n : Nat) : Rat)

/-! ### floats as exact (extended) rationals -/

/-- `minP n` as the nearest float64 (thresholds are floats: the comparison `minP ≤ α` is made there) -/
def minPF (n : Nat) : F64.Bits := F64.roundRat false 2 (choose (2 * n) n)

/-- exact value of a finite float -/
def toRat (b : F64.Bits) : Rat :=
  let (s, n, d) := F64.toRatParts b
  let q : Rat := mkRat n d
  if s then -q else q

def rabs (q : Rat) : Rat := if q < 0 then -q else q
def rmax (a b : Rat) : Rat := if a ≤ b then b else a

inductive EV where
  | nan
  | negInf
  | fin (q : Rat)
  | posInf

def ev (b : F64.Bits) : EV :=
  if F64.isNaN b then .nan
  else if F64.isInf b then (if F64.signBit b then .negInf else .posInf)
  else .fin (toRat b)

/-- a ≤ b on extended values (false with NaN) -/
def EV.le : EV → EV → Bool
  | .nan, _ => false
  | _, .nan => false
  | .negInf, _ => true
  | _, .posInf => true
  | .fin a, .fin b => a ≤ b
  | _, _ => false

def insertRat (x : Rat) : List Rat → List Rat
  | [] => [x]
  | y :: ys => if x ≤ y then x :: y :: ys else y :: insertRat x ys

def sortRat (l : List Rat) : List Rat := l.foldr insertRat []

def pow2 (k : Nat) : Rat := ((2 ^ k : Nat) : Rat)
def tiny12 : Rat := mkRat 1 (10 ^ 12)

/-! ### summaries -/

structure ImplSummary where
  center : F64.Bits
  lo : F64.Bits
  hi : F64.Bits
  conf : F64.Bits
  warn : Bool
  warnText : String   -- canonical warning tag of the harness ("-", "range", "need:ge:6")
  pct : String
  /-- the warning's claim tried out by the harness on the real code: the size it names, whether a
  sample of that size gets a finite interval at this confidence, whether one value fewer still gets
  an infinite one -/
  wn : Nat := 0
  wfin : Bool := false
  wprev : Bool := false
  /-- centre:lo:hi (bit patterns) of the summaries of the same measurements in two other arrival
  orders (reversed; odd positions first) -/
  rev : String := ""
  alt : String := ""
  /-- what the call modified in its input sample, as found by the harness: none / values / thresholds -/
  imod : String := "none"

def okIf (b : Bool) (reason : String) : String := if b then "ok" else reason

/-- the smallest most frequent value -/
def modeOf (xs : List Rat) : Option Rat :=
  let cnt (v : Rat) : Nat := (xs.filter (· == v)).length
  let maxc := (xs.map cnt).foldl max 0
  let modes := xs.filter (fun v => cnt v == maxc)
  match modes with
  | [] => none
  | m :: ms => some (ms.foldl rmin m)
where rmin (a b : Rat) : Rat := if a ≤ b then a else b

def minOf (xs : List Rat) : Option Rat := match xs with
  | [] => none
  | x :: r => some (r.foldl (fun a b => if a ≤ b then a else b) x)
def maxOf (xs : List Rat) : Option Rat := match xs with
  | [] => none
  | x :: r => some (r.foldl (fun a b => if a ≤ b then b else a) x)

def digitsToNat (ds : List Char) : Nat := ds.foldl (fun a c => a * 10 + (c.toNat - 48)) 0
def isDigit (c : Char) : Bool := '0' ≤ c && c ≤ '9'

/-- parse `[+-]ddd[.ddd]` followed by `suffix`; returns (had sign char, value) -/
def parseNum (s : String) (suffix : String) : Option (Bool × Rat) :=
  let cs := s.toList
  let (signed, neg, cs) := match cs with
    | '-' :: r => (true, true, r)
    | '+' :: r => (true, false, r)
    | _ => (false, false, cs)
  let ip := cs.takeWhile isDigit
  let r := cs.dropWhile isDigit
  if ip.isEmpty then none else
  let (fp, r) := match r with
    | '.' :: r' => (r'.takeWhile isDigit, r'.dropWhile isDigit)
    | _ => ([], r)
  if String.ofList r != suffix then none else
  let v : Rat := mkRat (digitsToNat (ip ++ fp)) (10 ^ fp.length)
  some (signed, if neg then -v else v)

/-- verdict on `PctRangeString`: the documented table and, in the regular case, the larger
relative deviation of the interval ends from the centre, in percent, rounded to an integer -/
def judgePct (c lo hi : F64.Bits) (text : String) : String :=
  match ev c, ev lo, ev hi with
  | .nan, _, _ => "ok"   -- NaN is outside the property (K still compares the bytes)
  | _, .nan, _ => "ok"
  | _, _, .nan => "ok"
  | .fin qc, .fin ql, .fin qh =>
    let sg (q : Rat) : Int := if q < 0 then -1 else if q == 0 then 0 else 1
    if sg qc != sg ql || sg qc != sg qh then okIf (text == "?") "want-?"
    else if qc == 0 then okIf (text == "0%") "want-0%"
    else
      let rh := qh / qc
      let rl := ql / qc
      if rabs rh ≥ pow2 1000 || rabs rl ≥ pow2 1000 then "ok"   -- beyond float range
      else
        let v := 100 * rmax (rh - 1) (1 - rl)
        match parseNum text "%" with
        | none => "unparsable"
        | some (_, k) =>
          let tol : Rat := mkRat 1 2 + 100 * (rabs rh + rabs rl + 1) / pow2 50
          okIf (rabs (k - v) ≤ tol) "wrong-percentage"
  | .fin _, _, _ => okIf (text == "∞") "want-∞"
  | _, _, _ => "ok"   -- infinite centre: outside the property

def showVerdicts (l : List (String × String)) : String :=
  " ".intercalate (l.map fun (k, v) => k ++ "=" ++ v)

/-! ### classes of the recorded findings X1–X3 (extreme magnitudes; go-moremath arithmetic) -/

/-- the rational at and above which a float64 result rounds to ±Inf: 2^1024 − 2^970 -/
def overflowAt : Rat := pow2 1024 - pow2 970

/-- **X1** — `Sample.Quantile` interpolates the median as `a + f·(b − a)` between the order statistics
a = x₍ₖ₎, b = x₍ₖ₊₁₎, k = ⌊(n+1)/2⌋ (f = 0 for odd n, ½ for even n): the class is "b − a rounds to
+Inf", i.e. b − a ≥ 2^1024 − 2^970. (xs sorted ascending, exact values.) -/
def classX1 (xs : List Rat) : Bool :=
  let n := xs.length
  let k := (n + 1) / 2
  match xs[k - 1]?, xs[k]? with
  | some a, some b => k ≥ 1 && b - a ≥ overflowAt
  | _, _ => false

/-- **X2** — `AssumeNormal.Summary` on n ≥ 2 values whose spread max − min is at least 2^505: the
running mean / squared deviations of moremath's `Mean`/`Variance` leave the float64 range. -/
def classX2 (xs : List Rat) : Bool :=
  match minOf xs, maxOf xs with
  | some mn, some mx => xs.length ≥ 2 && mx - mn ≥ pow2 505
  | _, _ => false

/-- exact sample variance Σ(x − mean)²/(n − 1) -/
def variance (xs : List Rat) : Rat :=
  let n : Rat := ((xs.length : Nat) : Rat)
  let mean := xs.foldl (· + ·) 0 / n
  (xs.map fun x => (x - mean) * (x - mean)).foldl (· + ·) 0 / (n - 1)

/-- **X3** — `AssumeNormal.Compare` on samples of sizes ≥ 2 with S = s₁²/n₁ + s₂²/n₂ (exact variances)
positive and S ≥ 2^505 or S ≤ 2^-530: the Welch degrees of freedom S²/(…) are formed from squares
of the variances, which overflow (Inf/Inf) or underflow (0/0) to NaN. -/
def classX3 (x1 x2 : List Rat) (k : Int := 0) : Bool :=
  if x1.length < 2 || x2.length < 2 then false else
  let s0 := variance x1 / ((x1.length : Nat) : Rat) + variance x2 / ((x2.length : Nat) : Rat)
  -- both samples multiplied by 2^k (the rescaled call of the metamorphic check): S scales by 4^k
  let s := if k ≥ 0 then s0 * pow2 (2 * k.toNat) else s0 / pow2 (2 * (-k).toNat)
  s > 0 && (s ≥ pow2 505 || s ≤ 1 / pow2 530)

def kfTag (cls : Bool) (id : String) : String := if cls then " kf=" ++ id else ""

/-- "invariant under reordering each sample": the summary of the same measurements in another arrival
order is the same BIT FOR BIT — including the sign of a zero centre or end (fix F27: −0 and +0 used
to stay in arrival order) -/
def judgeReorder (i : ImplSummary) : String :=
  let t := ":".intercalate ([i.center, i.lo, i.hi].map fun b => F64.toHex (F64.canonNaN b))
  okIf (i.rev == t && i.alt == t) "depends-on-arrival-order"

/-- summaries and comparisons must not modify the samples they are given -/
def judgeInputs (imod : String) : String := okIf (imod == "none" || imod == "") ("input-modified:" ++ imod)

def judgeExact (vals : List F64.Bits) (i : ImplSummary) : String :=
  let xs := vals.map toRat
  let centre := match modeOf xs, ev i.center with
    | some m, .fin c => okIf (c == m) "not-smallest-mode"
    | _, _ => "not-finite"
  let ends := match minOf xs, maxOf xs, ev i.lo, ev i.hi with
    | some mn, some mx, .fin l, .fin h => okIf (l == mn && h == mx) "not-min-max"
    | _, _, _, _ => "not-finite"
  let bracket := okIf ((ev i.lo).le (ev i.center) && (ev i.center).le (ev i.hi)) "centre-outside"
  let conf := okIf (i.conf == F64.one) "want-1"
  let differ := match minOf xs, maxOf xs with
    | some mn, some mx => mn != mx
    | _, _ => false
  let warn := okIf (i.warn == differ) (if differ then "missing-warning" else "spurious-warning")
  showVerdicts [("centre", centre), ("ends", ends), ("bracket", bracket), ("conf", conf), ("warn", warn),
                ("pct", judgePct i.center i.lo i.hi i.pct), ("reorder", judgeReorder i), ("inputs", judgeInputs i.imod)]

def judgeNothing (vals : List F64.Bits) (conf : F64.Bits) (qlo qhi : Nat) (needTab : List (Nat × Nat))
    (i : ImplSummary) : String :=
  let xs := sortRat (vals.map toRat)
  let n := xs.length
  -- exact median
  let centre := match ev i.center with
    | .fin c =>
      if n % 2 == 1 then okIf (some c == xs[n / 2]?) "not-the-median"
      else match xs[n / 2 - 1]?, xs[n / 2]? with
        | some a, some b =>
          -- one rounding of b − a, one of the sum; half a subnormal step where 0.5·(b − a) is subnormal
          let tol := rmax (rabs a) (rabs b) / pow2 52 + 1 / pow2 1074
          okIf (rabs (c - (a + b) / 2) ≤ tol) "not-the-median"
        | _, _ => "empty"
    | _ => "not-finite"
  -- ends are sample values or ±Inf, and the ones the order statistics name
  let endOK (e : EV) (ord : Nat) (neg : Bool) : Bool := match e with
    | .fin q => xs.contains q && (1 ≤ ord && ord ≤ n && xs[ord - 1]? == some q)
    | .negInf => neg && ord == 0
    | .posInf => !neg && ord == n + 1
    | .nan => false
  let ends := okIf (endOK (ev i.lo) qlo true && endOK (ev i.hi) qhi false) "not-order-statistics"
  let bracket := okIf ((ev i.lo).le (ev i.center) && (ev i.center).le (ev i.hi)) "centre-outside"
  -- reported confidence ≥ requested; = exact binomial coverage for n ≤ 30
  let confV := match ev i.conf, ev conf with
    | .fin r, .fin c =>
      if r < c then "below-requested"
      else if n ≤ 30 && rabs (r - coverage n qlo qhi) > tiny12 then "not-binomial-coverage"
      else "ok"
    | _, _ => "not-finite"
  let infEnd := F64.isInf i.lo || F64.isInf i.hi
  -- the warning names the least sample size ABOVE the one at hand (and ≥ 2, ≤ 50) whose interval
  -- (external data) is finite
  let needN := (List.range 49).find? fun k => n < k + 2 && match needTab[k]? with
    | some (lo, hi) => 0 < lo && hi ≤ k + 2
    | none => false
  let wantText := match needN with
    | some k => s!"need:ge:{k + 2}"
    | none => "need:gt:50"
  let warn :=
    if i.warn != infEnd then (if infEnd then "missing-warning" else "spurious-warning")
    else okIf (!infEnd || i.warnText == wantText) "wrong-sample-size"
  -- "a warning saying how many samples are needed": `need >= N` must mean that N values suffice for a
  -- finite interval at this confidence and N − 1 do not; `need > 50` that 50 do not suffice
  let needn :=
    if i.warnText.startsWith "need:ge:" then
      (if !i.wfin then "named-size-still-infinite" else if !i.wprev then "fewer-suffice" else "ok")
    else if i.warnText.startsWith "need:gt:" then okIf (!i.wfin) "50-suffice"
    else "ok"
  -- … and the sample that is told so has fewer than N values (F25: the interval can be finite at a
  -- smaller size and infinite at the size at hand, QuantileCI being non-monotone at n = 30 → 31)
  let have_ := if i.warnText.startsWith "need:ge:" then okIf (n < i.wn) "already-has-the-named-size" else "ok"
  showVerdicts [("centre", centre), ("ends", ends), ("bracket", bracket), ("conf", confV), ("warn", warn),
                ("pct", judgePct i.center i.lo i.hi i.pct), ("reorder", judgeReorder i), ("inputs", judgeInputs i.imod), ("needn", needn), ("have", have_)]
    ++ kfTag (classX1 xs) "X1"

/-! ### Student-t coverage of a symmetric interval (integer degrees of freedom), evaluated independently

For ν degrees of freedom and half-width h of the interval mean ± h, T = h·√n/s, θ = atan(T/√ν):
  ν even:  P(|t| ≤ T) = sin θ · Σ_{j<ν/2} c_j cos^{2j}θ,            c₀ = 1, c_j = c_{j−1}·(2j−1)/(2j)
  ν odd:   P(|t| ≤ T) = (2/π)·(θ + sin θ cos θ · Σ_{j<(ν−1)/2} d_j cos^{2j}θ),  d₀ = 1, d_j = d_{j−1}·2j/(2j+1)
(the classical finite sums, Abramowitz–Stegun 26.7.3/26.7.4). sin²θ = T²/(ν+T²) and cos²θ = ν/(ν+T²)
are exact rationals; the square root, the arctangent and π are evaluated in fixed point with 40
decimals (integer Newton square root, argument halving + Taylor series), far below the 1e-9
tolerance of the judge. -/

def fxS : Nat := 10 ^ 40
/-- π · 10⁴⁰ -/
def fxPi : Nat := 31415926535897932384626433832795028841971

/-- ⌊√n⌋ by Newton iteration -/
def isqrt (n : Nat) : Nat :=
  if n < 2 then n else
  let rec go (fuel x : Nat) : Nat :=
    match fuel with
    | 0 => x
    | fuel + 1 =>
      let y := (x + n / x) / 2
      if y ≥ x then x else go fuel y
  go 600 (2 ^ ((Nat.log2 n) / 2 + 1))

/-- fixed-point value of a non-negative rational -/
def fxOfRat (q : Rat) : Nat := (q.num.toNat * fxS) / q.den
def fxMul (a b : Nat) : Nat := a * b / fxS
/-- √q in fixed point -/
def fxSqrtRat (q : Rat) : Nat := isqrt ((q.num.toNat * fxS * fxS) / q.den)
/-- √(1 + x²) in fixed point -/
def fxHyp (x : Nat) : Nat := isqrt (fxS * fxS + x * x)

/-- atan x for 0 ≤ x ≤ 1 (fixed point): three argument halvings atan x = 2·atan(x/(1+√(1+x²))),
then the Taylor series -/
def fxAtanSmall (x : Nat) : Nat :=
  let halve (x : Nat) : Nat := x * fxS / (fxS + fxHyp x)
  let y := halve (halve (halve x))
  let y2 := fxMul y y
  -- Σ (−1)^k y^(2k+1)/(2k+1), 30 terms
  let (sum, _) := (List.range 30).foldl (fun (acc : Int × Nat) k =>
      let term : Int := (acc.2 / (2 * k + 1) : Nat)
      ((if k % 2 == 0 then acc.1 + term else acc.1 - term), fxMul acc.2 y2)) ((0 : Int), y)
  8 * sum.toNat

/-- atan x for x ≥ 0 -/
def fxAtan (x : Nat) : Nat :=
  if x ≤ fxS then fxAtanSmall x else fxPi / 2 - fxAtanSmall (fxS * fxS / x)

/-- P(|t_ν| ≤ T) in fixed point, given T² as an exact rational -/
def tCoverageFx (nu : Nat) (t2 : Rat) : Nat :=
  if nu == 0 then 0 else
  let nuq : Rat := ((nu : Nat) : Rat)
  let sin2 := t2 / (nuq + t2)
  let cos2 := fxOfRat (nuq / (nuq + t2))
  if nu % 2 == 0 then
    let (sum, _, _) := (List.range (nu / 2)).foldl (fun (acc : Nat × Nat × Nat) j =>
        -- acc = (sum, coefficient c_j · cos^{2j}, unused)
        let term := if j == 0 then fxS else acc.2.1 * (2 * j - 1) / (2 * j)
        let term := if j == 0 then term else fxMul term cos2
        (acc.1 + term, term, 0)) (0, fxS, 0)
    fxMul (fxSqrtRat sin2) sum
  else
    let theta := fxAtan (fxSqrtRat (t2 / nuq))
    let sc := fxSqrtRat (sin2 * (nuq / (nuq + t2)))
    let (sum, _, _) := (List.range ((nu - 1) / 2)).foldl (fun (acc : Nat × Nat × Nat) j =>
        let term := if j == 0 then fxS else fxMul (acc.2.1 * (2 * j) / (2 * j + 1)) cos2
        (acc.1 + term, term, 0)) (0, fxS, 0)
    2 * (theta + fxMul sc sum) * fxS / fxPi

/-- tolerance for the running mean m += (x−m)/(i+1): `meanUlps` units in the last place of the
largest magnitude in the sample -/
def meanUlps : Nat := 4

def judgeNormal (vals : List F64.Bits) (conf : F64.Bits) (i : ImplSummary) : String :=
  let xs := vals.map toRat
  let n := xs.length
  let mean : Rat := xs.foldl (· + ·) 0 / ((n : Nat) : Rat)
  let mx := (xs.map rabs).foldl rmax 0
  let centre := match ev i.center with
    | .fin c => okIf (rabs (c - mean) ≤ (meanUlps : Nat) * mx / pow2 52 + (n : Nat) / pow2 1074) "not-the-mean"
    | _ => "not-finite"
  -- t interval: symmetric about the mean (its half-width, a t quantile, is not judged here); an
  -- infinite end of a sample of n ≥ 2 values is legitimate only where mean ± t·s/√n can really leave
  -- the float64 range: standard error s/√n ≥ 2^1000
  let hugeSE := n ≥ 2 && variance xs / ((n : Nat) : Rat) ≥ pow2 2000
  let ends := match ev i.lo, ev i.center, ev i.hi with
    | .fin l, .fin c, .fin h =>
      okIf (rabs ((h - c) - (c - l)) ≤ 4 * rmax (rabs l) (rmax (rabs h) (rabs c)) / pow2 52 + 4 / pow2 1074) "asymmetric"
    | .negInf, .fin _, .posInf => okIf (n ≤ 1 || hugeSE) "infinite"
    | .negInf, .fin _, .fin _ => okIf hugeSE "infinite"
    | .fin _, .fin _, .posInf => okIf hugeSE "infinite"
    | _, _, _ => "not-finite"
  let bracket := okIf ((ev i.lo).le (ev i.center) && (ev i.center).le (ev i.hi)) "centre-outside"
  let confV := okIf (i.conf == conf) "not-the-requested"
  let warn := okIf (!i.warn) "spurious-warning"
  -- "the mean with its t interval": with h = (Hi − Lo)/2 and the exact sample standard deviation s,
  -- the Student-t coverage P(|t_{n−1}| ≤ h·√n/s) must be the requested confidence (1e-9), allowing
  -- for the rounding of the two ends (h ± 2⁻⁵²·max magnitude). Judged on well-conditioned samples
  -- (s ≥ 2⁻²⁰·max|x|: below that float64 cannot resolve the variance) with finite ends.
  let tcov := match ev i.lo, ev i.hi, ev conf with
    | .fin l, .fin h, .fin c =>
      let var := if n ≥ 2 then variance xs else 0
      if n < 2 || c ≤ 0 || c ≥ 1 || var ≤ 0 || var * pow2 40 < mx * mx then "ok"
      else
        let half := (h - l) / 2
        let slack := rmax (rabs l) (rabs h) / pow2 52
        let t2 (hw : Rat) : Rat := if hw ≤ 0 then 0 else hw * hw * ((n : Nat) : Rat) / var
        let covLo := tCoverageFx (n - 1) (t2 (half - slack))
        let covHi := tCoverageFx (n - 1) (t2 (half + slack))
        let cfx := fxOfRat c
        let tol := fxS / 10 ^ 9
        if cfx + tol < covLo then "interval-too-wide"
        else if covHi + tol < cfx then "interval-too-narrow"
        else "ok"
    | _, _, _ => "ok"
  showVerdicts [("centre", centre), ("ends", ends), ("bracket", bracket), ("conf", confV), ("warn", warn),
                ("pct", judgePct i.center i.lo i.hi i.pct), ("reorder", judgeReorder i), ("inputs", judgeInputs i.imod), ("tcov", tcov)]
    ++ kfTag (classX2 xs) "X2"

/-! ### comparisons -/

structure ImplComparison where
  p : F64.Bits
  n1 : Nat
  n2 : Nat
  alpha : F64.Bits
  p21 : F64.Bits     -- Compare(s2, s1).P
  psh : F64.Bits     -- after shuffling both samples
  psc : F64.Bits     -- after multiplying both samples by 2^k
  delta : String
  str : String
  warn : String      -- canonical warning tag of the harness ("-", "need:ge:4", "err:…")
  /-- threshold the SECOND sample was created with (may differ from the first's), and what the calls
  modified in the two samples (none / values / thresholds) -/
  alpha2 : F64.Bits := F64.nan
  imod : String := "none"

/-- "a difference is shown exactly when p does not exceed the threshold"; then the documented
cases '0.00%' (equal centres), '?' (old centre 0), else (new/old − 1)·100 with two decimals -/
def judgeDelta (p alpha old new : F64.Bits) (text : String) : String × String :=
  match ev p, ev alpha with
  | .nan, _ => ("ok", "ok")
  | _, .nan => ("ok", "ok")
  | ep, ea =>
    let exceeds := !(ep.le ea)
    if exceeds then (okIf (text == "~") "want-~", "ok")
    else if text == "~" then ("hidden-though-p≤alpha", "ok")
    else
      let d := match ev old, ev new with
        | .fin o, .fin nw =>
          if o == nw then okIf (text == "0.00%") "want-0.00%"
          else if o == 0 then okIf (text == "?") "want-?"
          else
            let ratio := nw / o
            if rabs ratio ≥ pow2 1000 then "ok"
            else
              let v := (ratio - 1) * 100
              match parseNum text "%" with
              | none => "unparsable"
              | some (signed, k) =>
                let tol : Rat := mkRat 1 200 + 100 * (rabs ratio + 1) / pow2 50
                if !signed then "no-sign" else okIf (rabs (k - v) ≤ tol) "wrong-percentage"
        | _, _ => "ok"
      ("ok", d)

/-- "p=0.PPP n=N1+N2", p omitted when 0, "n=N" when the sizes agree -/
def judgeStr (p : F64.Bits) (n1 n2 : Nat) (text : String) : String :=
  let ns := if n1 == n2 then s!"n={n1}" else s!"n={n1}+{n2}"
  match ev p with
  | .fin q =>
    if q == 0 then okIf (text == ns) "want-n-only"
    else
      match text.splitOn " " with
      | [pp, nn] =>
        if nn != ns then "wrong-n"
        else if !pp.startsWith "p=" then "no-p"
        else match parseNum ((pp.drop 2).toString) "" with
          | some (_, k) => okIf (rabs (k - q) ≤ mkRat 1 2000 + mkRat 1 (10 ^ 15)) "wrong-p"
          | none => "unparsable"
      | _ => "shape"
  | _ => "ok"

def closeOrEqual (exactBits : Bool) (a b : F64.Bits) : Bool :=
  if exactBits then a == b || (F64.isZero a && F64.isZero b)
  else match ev a, ev b with
    | .fin x, .fin y => rabs (x - y) ≤ tiny12
    | _, _ => false

/-- dense ranks (order and ties preserved): the permutation p-value only depends on them -/
def ranks (pool : List Rat) (xs : List Rat) : List Nat :=
  xs.map fun x => ((pool.eraseDups).filter (· < x)).length

def judgeCompare (a : String) (v1 v2 : List F64.Bits) (alpha old new : F64.Bits) (i : ImplComparison)
    (k : Int := 0) : String :=
  let nOK := okIf (i.n1 == v1.length && i.n2 == v2.length) "wrong-sizes"
  let prange := match ev i.p with
    | .fin q => okIf (0 ≤ q && q ≤ 1) "outside-[0,1]"
    | _ => "not-finite"
  let bitExact := a != "normal"
  let sym := okIf (closeOrEqual bitExact i.p i.p21) "swap-asymmetric"
  let shuf := okIf (closeOrEqual bitExact i.p i.psh) "order-dependent"
  let scale := okIf (closeOrEqual bitExact i.p i.psc) "scale-dependent"
  let exact :=
    if a == "nothing" && v1.length + v2.length ≤ 12 then
      let r1 := v1.map toRat
      let r2 := v2.map toRat
      let pool := r1 ++ r2
      let want := pPerm (ranks pool r1) (ranks pool r2)
      match ev i.p with
      | .fin q => okIf (rabs (q - want) ≤ tiny12) "not-the-permutation-p"
      | _ => "not-finite"
    else "na"
  -- small-sample warning: present exactly when p > α and both sizes are below the least n with
  -- 2/C(2n,n) ≤ α (">9" when no n ≤ 9 qualifies)
  let warnV :=
    if a != "nothing" || i.warn.startsWith "err" then "ok" else
    match ev i.p, ev i.alpha with
    | .fin q, .fin al =>
      let need := match (List.range 9).find? (fun k => toRat (minPF (k + 1)) ≤ al) with
        | some k => ("ge", k + 1)
        | none => ("gt", 10)
      let want := if q > al && i.n1 < need.2 && i.n2 < need.2 then s!"need:{need.1}:{need.2}" else "-"
      okIf (i.warn == want) "wrong-sample-size-warning"
    | _, _ => "ok"
  -- a comparison whose test could not be carried out (its error is passed on as a warning) has no
  -- p-value to report: it must say "no significant difference", P = 1 (mutation sweep: `P: 0` there
  -- would show a difference at every threshold)
  let errp :=
    if i.warn.startsWith "err" then
      (match ev i.p with | .fin q => okIf (q == 1) "failed-test-claims-significance" | _ => "not-finite")
    else "ok"
  -- "the significance threshold the samples were created with": unambiguous when both samples carry
  -- the same threshold; when they differ the result must carry one of the two (the code takes the
  -- first sample's — `alpha_carried` — which the correspondence pins)
  let alphaV :=
    if a == "exact" then "ok"
    else if F64.isNaN i.alpha2 || closeOrEqual true i.alpha2 alpha then okIf (closeOrEqual true i.alpha alpha) "threshold-not-carried"
    else okIf (closeOrEqual true i.alpha alpha || closeOrEqual true i.alpha i.alpha2) "threshold-not-carried"
  let (shown, delta) := judgeDelta i.p i.alpha old new i.delta
  showVerdicts [("n", nOK), ("prange", prange), ("sym", sym), ("shuf", shuf), ("scale", scale), ("exact", exact),
                ("alpha", alphaV), ("warn", warnV), ("errp", errp), ("shown", shown), ("delta", delta), ("str", judgeStr i.p i.n1 i.n2 i.str), ("inputs", judgeInputs i.imod)]
    ++ kfTag (a == "normal" && (classX3 (v1.map toRat) (v2.map toRat) || classX3 (v1.map toRat) (v2.map toRat) k)) "X3"

/-- a case on which the real code panicked: the property demands a result -/
def judgePanic (kind a : String) (v1 v2 : List F64.Bits) : String :=
  "panic=0" ++ kfTag (kind == "cmp" && a == "normal" && classX3 (v1.map toRat) (v2.map toRat)) "X3"

def judgeRenderCmp (p alpha : F64.Bits) (n1 n2 : Nat) (old new : F64.Bits) (delta str : String) : String :=
  let (shown, d) := judgeDelta p alpha old new delta
  showVerdicts [("shown", shown), ("delta", d), ("str", judgeStr p n1 n2 str)]

/-- the table must be 2/C(2n,n) correctly rounded -/
def judgeMinP (tab : List F64.Bits) : String :=
  okIf (tab.length == 9 && (tab.zipIdx 1).all fun e => e.1 == minPF e.2) "not-2/C(2n,n)"

end Spec.MathSpec
