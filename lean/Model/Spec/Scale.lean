/-
Specification-level oracle for C10: judges the text an implementation printed for a value
against the property statement, with exact rational arithmetic (independent of the model of
CommonScale / Format in Model/Unit/Scale.lean).
-/
import Model.Base.F64
import Model.Base.Bytes

namespace Spec.Scale

/-- exact value of a finite float -/
def toRat (b : F64.Bits) : Rat :=
  let (s, n, d) := F64.toRatParts b
  let q : Rat := mkRat n d
  if s then -q else q

structure Printed where
  neg : Bool
  intDigits : List Char
  fracDigits : List Char
  pfx : String
  deriving Repr

def isDigit (c : Char) : Bool := '0' ≤ c && c ≤ '9'

def parsePrinted (s : String) : Option Printed :=
  let cs := s.toList
  let (neg, cs) := match cs with
    | '-' :: r => (true, r)
    | _ => (false, cs)
  let ip := cs.takeWhile isDigit
  let r := cs.dropWhile isDigit
  if ip.isEmpty then none else
  match r with
  | '.' :: r' =>
    let fp := r'.takeWhile isDigit
    if fp.isEmpty then none else
    some { neg, intDigits := ip, fracDigits := fp, pfx := String.ofList (r'.dropWhile isDigit) }
  | _ => some { neg, intDigits := ip, fracDigits := [], pfx := String.ofList r }

def digitsToNat (ds : List Char) : Nat := ds.foldl (fun a c => a * 10 + (c.toNat - 48)) 0

def Printed.mantissa (p : Printed) : Rat :=
  mkRat (digitsToNat (p.intDigits ++ p.fracDigits)) (10 ^ p.fracDigits.length)

/-- significant digits of the printed mantissa: all digits from the first non-zero one -/
def Printed.sigDigits (p : Printed) : Nat :=
  ((p.intDigits ++ p.fracDigits).dropWhile (· == '0')).length

/-- the documented prefixes and their exact factors -/
def decimalFactor (pfx : String) : Option Rat :=
  match pfx with
  | "T" => some (10 ^ 12) | "G" => some (10 ^ 9) | "M" => some (10 ^ 6) | "k" => some (10 ^ 3)
  | "" => some 1 | "m" => some (mkRat 1 (10 ^ 3)) | "µ" => some (mkRat 1 (10 ^ 6)) | "n" => some (mkRat 1 (10 ^ 9))
  | _ => none

def binaryFactor (pfx : String) : Option Rat :=
  match pfx with
  | "Ti" => some (2 ^ 40) | "Gi" => some (2 ^ 30) | "Mi" => some (2 ^ 20) | "Ki" => some (2 ^ 10)
  | "" => some 1
  | _ => none

def rabs (q : Rat) : Rat := if q < 0 then -q else q

/-- Verdict on `Scale(v, cls)` = `text`. Returns "ok" or a reason. -/
def judgeScale (v : F64.Bits) (binary : Bool) (text : String) : String :=
  if !F64.isFinite v then "ok" else
  match parsePrinted text with
  | none => "unparsable"
  | some p =>
    match (if binary then binaryFactor p.pfx else decimalFactor p.pfx) with
    | none => "unknown-prefix"
    | some F =>
      let x := rabs (toRat v)
      let m := p.mantissa
      let prec := p.fracDigits.length
      -- accuracy: half a unit of the last printed digit, plus one rounding of the float quotient
      -- and of the float factor (each relative 2^-53), see DESIGN C10
      let tol : Rat := (mkRat 1 (2 * 10 ^ prec) + m * mkRat 1 (2 ^ 52)) * F
      if rabs (m * F - x) > tol then "inaccurate"
      else if p.neg != F64.signBit v then "sign"
      else if x == 0 then "ok"
      else
        -- range in which a prefix exists
        let lo : Rat := if binary then mkRat 99995 100000 else mkRat 99995 100000 * mkRat 1 (10 ^ 9)
        let hi : Rat := if binary then 1024 * 2 ^ 40 else mkRat 99995 100 * 10 ^ 12
        let top : Rat := if binary then 1024 else 1000
        if lo ≤ x ∧ x < hi then
          if m < 1 then "mantissa-below-1"
          else if m ≥ top then "mantissa-too-large"
          else if p.sigDigits < 4 then "fewer-than-4-digits"
          else "ok"
        else if x < lo ∧ x ≥ lo * mkRat 1 (10 ^ 8) then
          if p.sigDigits < 3 then "fewer-than-3-digits" else "ok"
        else if x ≥ hi then
          -- above the largest prefix: the scale appropriate to the magnitude is still the largest one
          if p.pfx != (if binary then "Ti" else "T") then "not-largest-prefix" else "ok"
        else "ok"

/-- Verdict on the no-op scaler: the text must read back to the same float and no decimal with
fewer significant digits may do so. -/
def judgeShortest (v : F64.Bits) (text : String) : String :=
  if !F64.isFinite v then "ok" else
  match parsePrinted text with
  | none => "unparsable"
  | some p =>
    if p.pfx != "" then "unexpected-suffix" else
    let all := p.intDigits ++ p.fracDigits
    let e10 : Int := -(p.fracDigits.length : Int)
    let N := digitsToNat all
    if F64.ofDecimal p.neg N e10 != v then "does-not-read-back"
    else if N == 0 then "ok"
    else
      -- strip trailing zeros
      let rec strip (fuel : Nat) (n : Nat) (e : Int) : Nat × Int :=
        match fuel with
        | 0 => (n, e)
        | fuel + 1 => if n % 10 == 0 && n != 0 then strip fuel (n / 10) (e + 1) else (n, e)
      let (n, e) := strip 400 N e10
      if n < 10 then "ok"
      else
        let c := n / 10
        let cands := [c - 1, c, c + 1, c + 2]
        if cands.any (fun k => F64.ofDecimal p.neg k (e + 1) == v) then "not-shortest" else "ok"

/-- index of the smallest non-zero magnitude (first one on ties), if any -/
def argMinNonZero (vals : List F64.Bits) : Option Nat :=
  let rec go (i : Nat) (best : Option (Nat × Rat)) : List F64.Bits → Option (Nat × Rat)
    | [] => best
    | v :: vs =>
      if !F64.isFinite v then go (i + 1) best vs
      else
        let x := rabs (toRat v)
        if x == 0 then go (i + 1) best vs
        else match best with
          | none => go (i + 1) (some (i, x)) vs
          | some (_, bx) => if x < bx then go (i + 1) (some (i, x)) vs else go (i + 1) best vs
  (go 0 none vals).map (·.1)

end Spec.Scale
