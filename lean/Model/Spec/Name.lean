/-
Specification of name decomposition and key extraction (property C05), written
independently of the algorithmic model in Model/Fmt/Name.lean and Model/Proc/Extract.lean.
-/
import Model.Base.Bytes

namespace Spec.Name
open Bytes

abbrev slash : UInt8 := 47
abbrev dash : UInt8 := 45
abbrev eqc : UInt8 := 61

/-- The trailing GOMAXPROCS part: `-` followed by one or more digits at the very end. -/
def gmpSplit (n : Bytes) : Bytes × Option Bytes :=
  let ds := n.reverse.takeWhile isDigit
  let rest := n.reverse.dropWhile isDigit
  match rest with
  | c :: r => if c == dash && !ds.isEmpty then (r.reverse, some (c :: ds.reverse)) else (n, none)
  | [] => (n, none)

/-- Split at every '/', the '/' staying at the head of the piece it introduces. -/
def segments (b : Bytes) : Bytes × List Bytes :=
  let first := b.takeWhile (· != slash)
  let rec go (fuel : Nat) (r : Bytes) : List Bytes :=
    match fuel, r with
    | 0, _ => []
    | _, [] => []
    | fuel + 1, c :: r' => (c :: r'.takeWhile (· != slash)) :: go fuel (r'.dropWhile (· != slash))
  (first, go b.length (b.dropWhile (· != slash)))

def decomp (n : Bytes) : Bytes × List Bytes :=
  let (buf, g) := gmpSplit n
  let (b, segs) := segments buf
  (b, segs ++ (match g with | some g => [g] | none => []))

/-- Shape predicate of the property: base has no '/', every part but an optional last one is a
'/'-introduced segment without further '/', the optional last one is `-digits⁺`. -/
def isSlashSeg (p : Bytes) : Bool :=
  match p with
  | c :: r => c == slash && !(hasByte r slash)
  | [] => false

def isGmpPart (p : Bytes) : Bool :=
  match p with
  | c :: r => c == dash && !r.isEmpty && r.all isDigit
  | [] => false

def shapeOK (b : Bytes) (ps : List Bytes) : Bool :=
  !(hasByte b slash) &&
  (match ps.getLast? with
   | none => true
   | some l => (ps.dropLast.all isSlashSeg) && (isSlashSeg l || isGmpPart l))

/-- value of sub-name key `/k`: text after `/k=` in the first part with that prefix -/
def subname (k : Bytes) (ps : List Bytes) : Bytes :=
  match ps.find? (hasPrefix · (k ++ [eqc])) with
  | some p => p.drop (k.length + 1)
  | none => []

/-- "/gomaxprocs" -/
def gomaxprocsKey : Bytes := [47, 103, 111, 109, 97, 120, 112, 114, 111, 99, 115]

def gomaxprocs (ps : List Bytes) : Bytes :=
  match ps.getLast? with
  | some l => if isGmpPart l then l.drop 1 else subname gomaxprocsKey ps
  | none => []

end Spec.Name

namespace Spec.Name
open Bytes

/-- "full name with the excluded keys removed" (the `.fullname` value when other projections
name `.name`, sub-name keys or `/gomaxprocs` individually): the base is replaced by `*` when
`.name` is excluded; every part carrying an excluded `/k=` prefix is deleted; the `-N` part is
deleted when `/gomaxprocs` is excluded. Always computed from the decomposition (no fast path). -/
def fullNameExcluding (exclude : List Bytes) (b : Bytes) (ps : List Bytes) : Bytes :=
  let excName := exclude.any (· == [46, 110, 97, 109, 101])
  let subs := exclude.filter (·.head? == some slash)
  let excG := subs.any (· == gomaxprocsKey)
  let start := if excName then [42] else b
  let kept := ps.filter fun part =>
    !(subs.any fun k => hasPrefix part (k ++ [eqc])) && !(excG && part.head? == some dash)
  start ++ kept.flatten

end Spec.Name
