/-
Specification side of property C19, written independently of the algorithmic model in
Model/Storage/*.lean: what the stored benchmark lines of an upload history are, what a query term
means, which lines a query must return and what the upload listing must report.
Byte strings are compared with core Lean's lexicographic `<` on `List UInt8`.
Core Lean only.
-/
import Model.Base.Bytes
import Model.Fmt.Rune

namespace Spec.Storage
open Bytes

/-- Unicode classification of code points ≥ 0x80 (a parameter: taken from the Go toolchain) -/
abbrev UC := _root_.Fmt.UC

abbrev KV := List (Bytes × Bytes)

def lookup (l : KV) (k : Bytes) : Option Bytes := (l.find? (·.1 == k)).map (·.2)

def put (l : KV) (k v : Bytes) : KV := (l.filter (·.1 != k)) ++ [(k, v)]

def del (l : KV) (k : Bytes) : KV := l.filter (·.1 != k)

/-- sorted by key (for printing and for comparing label sets) -/
def canon (l : KV) : KV := (l.toArray.qsort (fun a b => decide (a.1 < b.1))).toList

def sameKV (a b : KV) : Bool := canon a == canon b

/-- One stored benchmark line in the vocabulary of the property. -/
structure Line where
  labels : KV      -- file labels, name-derivedL labels and server labels together (what queries see)
  /-- the two groups of a result's labels as the public `Result` type presents them: persistentL
  labels (file and server) and labels derived from the benchmark name -/
  persistentL : KV := []
  derivedL : KV := []
  content : Bytes
  deriving Repr

/-! ### lines of a file -/

/-- pieces of `l` between the bytes satisfying `p` -/
def splitBy (l : Bytes) (p : UInt8 → Bool) : List Bytes :=
  l.foldr (fun c acc => if p c then [] :: acc else
    match acc with
    | [] => [[c]]
    | w :: ws => (c :: w) :: ws) [[]]

/-- '\n'-terminated lines, a CR before the terminator belongs to the terminator -/
def textLines (data : Bytes) : List Bytes :=
  let raw := splitBy data (· == 10)
  let raw := if raw.getLast? == some [] then raw.dropLast else raw
  raw.map fun l => if l.getLast? == some 13 then l.dropLast else l

def blank (c : UInt8) : Bool := c == 32 || c == 9

/-- the text as runes: code point and the bytes that encode it (a malformed byte is U+FFFD of width
one, as in Go's `range`) -/
def runes (s : Bytes) : List (Nat × Bytes) :=
  let rec go (fuel : Nat) (s : Bytes) : List (Nat × Bytes) :=
    match fuel, s with
    | 0, _ => []
    | _, [] => []
    | fuel + 1, s =>
      let (r, n) := _root_.Fmt.decodeRune s
      let n := if n == 0 then 1 else n
      (r, s.take n) :: go fuel (s.drop n)
  go s.length s

def bytesOf (rs : List (Nat × Bytes)) : Bytes := rs.flatMap (·.2)

/-- `key: value` configuration line: the key is what precedes the first colon, starts with a
lower-case letter and holds no white space and no upper-case letter; the value is separated by at
least one blank, or is empty (which unsets the key). -/
def configLine (uc : UC) (line : Bytes) : Option (Bytes × Bytes) :=
  let rs := runes line
  let keyR := rs.takeWhile (·.1 != 58)
  let key := bytesOf keyR
  match keyR, line.drop key.length with
  | (r0, _) :: _, _ :: val =>
    if uc.lower r0 && keyR.all (fun r => !uc.space r.1 && !uc.upper r.1) then
      if val.isEmpty then some (key, [])
      else match val with
        | b :: _ => if blank b then some (key, val.dropWhile blank) else none
        | [] => none
    else none
  | _, _ => none

/-- `Benchmark<name><white space>…`: the full name without the prefix -/
def benchLine (uc : UC) (line : Bytes) : Option Bytes :=
  let word := bytesOf ((runes line).takeWhile (fun r => !uc.space r.1))
  if word.length < line.length && hasPrefix word (ofString "Benchmark") then some (word.drop 9) else none

/-! ### labels derived from the benchmark name -/

def digits (s : Bytes) : Bool := !s.isEmpty && s.all isDigit

/-- a trailing `-N` (N an integer in the int64 range, optionally signed) is `gomaxprocs` -/
def gomaxprocsSplit (name : Bytes) : Bytes × Option Bytes :=
  let tailRev := name.reverse.takeWhile (· != 45)
  if tailRev.length == name.length then (name, none) else
  let tail := tailRev.reverse
  let head := name.take (name.length - tail.length - 1)
  let (neg, ds) := match tail with
    | 45 :: r => (true, r)
    | 43 :: r => (false, r)
    | _ => (false, tail)
  let val := ds.foldl (fun n d => 10 * n + (d.toNat - 48)) 0
  if digits ds && val ≤ (if neg then 2 ^ 63 else 2 ^ 63 - 1) then (head, some tail) else (name, none)

def nameLabels (full : Bytes) : KV :=
  let (name, gmp) := gomaxprocsSplit full
  let parts := splitBy name (· == 47)
  let l : KV := match gmp with | some g => [(ofString "gomaxprocs", g)] | none => []
  let l := put l (ofString "name") (parts.headD [])
  (parts.drop 1).zipIdx.foldl (fun l (sub, i) =>
    let k := sub.takeWhile (· != 61)
    if k.length < sub.length then put l k (sub.drop (k.length + 1))
    else put l (ofString s!"sub{i + 1}") sub) l

/-- the benchmark lines of one file with the labels in force; `server` labels cannot be overridden -/
def fileLines (uc : UC) (server : KV) (data : Bytes) : List Line :=
  let step (st : KV × List Line) (line : Bytes) : KV × List Line :=
    match configLine uc line with
    | some (k, v) =>
      if (lookup server k).isSome then st
      else if v.isEmpty then (del st.1 k, st.2) else (put st.1 k v, st.2)
    | none =>
      match benchLine uc line with
      | some full =>
        let ln : Line := ⟨st.1 ++ nameLabels full, st.1, nameLabels full, line⟩
        (st.1, st.2 ++ [ln])
      | none => st
  ((textLines data).foldl step (server, [])).2

/-! ### query terms -/

inductive Cmp | eq | lt | gt
  deriving DecidableEq, Repr

structure Term where
  key : Bytes
  cmp : Cmp
  value : Bytes
  deriving Repr

/-- a word `key:value`, `key<value`, `key>value`; the key ends at the first of `: < >` and must not
contain white space or an upper-case letter -/
def termOf (uc : UC) (w : Bytes) : Option Term :=
  let key := bytesOf ((runes w).takeWhile
    (fun r => !(r.1 == 58 || r.1 == 60 || r.1 == 62 || uc.space r.1 || uc.upper r.1)))
  match w.drop key.length with
  | 58 :: v => some ⟨key, .eq, v⟩
  | 60 :: v => some ⟨key, .lt, v⟩
  | 62 :: v => some ⟨key, .gt, v⟩
  | _ => none

/-- bytewise comparison of the label's value; a line without the key satisfies no term on it -/
def Term.sat (t : Term) (labels : KV) : Bool :=
  match lookup labels t.key with
  | none => false
  | some v =>
    match t.cmp with
    | .eq => v == t.value
    | .lt => decide (v < t.value)
    | .gt => decide (t.value < v)

/-- terms the server is allowed to refuse: an equality with an empty value ("searching for missing
labels" is not offered) on a key other than `upload` -/
def Term.refusable (t : Term) : Bool :=
  t.cmp == .eq && t.value.isEmpty && t.key != ofString "upload"

def matchesAll (ts : List Term) (l : Line) : Bool := ts.all (·.sat l.labels)

/-! ### stored records: runs of consecutive lines with identical labels (both groups of the `Result`
type identical: a key that moves from the file configuration into the benchmark name, with the same
value, starts a new record) -/

def runs : List Line → List (List Line)
  | [] => []
  | l :: rest =>
    match runs rest with
    | (m :: r) :: rs =>
      if sameKV l.persistentL m.persistentL && sameKV l.derivedL m.derivedL then (l :: m :: r) :: rs
      else [l] :: (m :: r) :: rs
    | rs => [l] :: rs

/-- number of stored records of an upload whose labels satisfy the query -/
def matchingRecords (ts : List Term) (lines : List Line) : Nat :=
  ((runs lines).filter fun r => match r with | l :: _ => matchesAll ts l | [] => false).length

/-- listing: uploads in creation order in, newest first out, only uploads with a match, limited -/
def listing (ts : List Term) (uploads : List (Bytes × List Line)) (limit : Int) : List (Bytes × Nat) :=
  let rows := (uploads.reverse.map fun u => (u.1, matchingRecords ts u.2)).filter (·.2 > 0)
  if limit > 0 then rows.take limit.toNat else rows

end Spec.Storage
