/-
Specification for C11 (Mann–Whitney U): short, definitional, independent of the recurrences.

* `twoUPairs x1 x2`  2·U by pair counting: 2 per (a ∈ x1, b ∈ x2) with a > b, 1 per tie
* `splits n l`       every way to choose n positions of the pooled sample (chosen, rest)
* `nullDist x1 x2`   the 2·U values of all C(N, n1) equally likely assignments
* `pLess pGreater pTwoSided`   the p-values by counting
* `groupDist T n1`   the same distribution counted per tie group (r-vectors weighted by ∏ C(t_k, r_k)):
                     used as the oracle where C(N, n1) is too large to enumerate (cross-checked
                     against the enumeration on every small case by the driver)
* normal approximation: μ, tie-corrected σ², continuity-corrected numerator, as exact rationals

Core Lean only.
-/
namespace Spec.UExact

section
variable {α : Type} [LT α] [DecidableLT α] [DecidableEq α]

/-- weight of one (first, second) pair in 2·U -/
def pairW (a b : α) : Nat := if b < a then 2 else if a = b then 1 else 0

/-- 2·U = 2·#{(a,b) : a > b} + #{(a,b) : a = b} -/
def twoUPairs (x1 x2 : List α) : Nat :=
  (x1.map fun a => (x2.map fun b => pairW a b).sum).sum

/-- all ways to split `l` into `n` chosen elements and the rest (positions, not values) -/
def splits : Nat → List α → List (List α × List α)
  | 0, l => [([], l)]
  | _ + 1, [] => []
  | n + 1, a :: l =>
      ((splits n l).map fun p => (a :: p.1, p.2)) ++ ((splits (n + 1) l).map fun p => (p.1, a :: p.2))

/-- 2·U of every assignment of the pooled values to groups of sizes n1, n2 -/
def nullDistOf (n1 : Nat) (pool : List α) : List Nat :=
  (splits n1 pool).map fun p => twoUPairs p.1 p.2

def nullDist (x1 x2 : List α) : List Nat := nullDistOf x1.length (x1 ++ x2)

/-- tie vector of a pooled sample: multiplicities of its distinct values, listed in the order
    `distinctSorted` (the distinct values in increasing order) -/
def tieVectorOf (distinctSorted pool : List α) : List Nat :=
  distinctSorted.map fun a => (pool.filter (· = a)).length

/-- is any value of the pooled sample repeated? -/
def hasTies (x1 x2 : List α) : Bool :=
  let pool := x1 ++ x2
  pool.any fun a => decide ((pool.filter (· = a)).length > 1)

/-- Σ (t³ − t) over the distinct pooled values, t = multiplicity (no sorting involved) -/
def tieTerm (x1 x2 : List α) : Nat :=
  let pool := x1 ++ x2
  (pool.eraseDups.map fun a => let t := (pool.filter (· = a)).length; t * t * t - t).sum

def allEqual (x1 x2 : List α) : Bool :=
  match x1 ++ x2 with
  | [] => true
  | a :: l => l.all (· = a)

end

/-- P(2U ≤ u) -/
def pLess (dist : List Nat) (u : Nat) : Rat :=
  (((dist.filter (· ≤ u)).length : Nat) : Rat) / ((dist.length : Nat) : Rat)

/-- P(2U ≥ u) -/
def pGreater (dist : List Nat) (u : Nat) : Rat :=
  (((dist.filter (· ≥ u)).length : Nat) : Rat) / ((dist.length : Nat) : Rat)

def ratMin (a b : Rat) : Rat := if a ≤ b then a else b

/-- twice the smaller one-sided value, capped at 1 -/
def pTwoSided (dist : List Nat) (u : Nat) : Rat :=
  ratMin 1 (2 * ratMin (pLess dist u) (pGreater dist u))

/-! ### counting per tie group -/

/-- C(n,k) = ∏_{i<k} (n−i)/(i+1) -/
def choose (n k : Nat) : Nat :=
  if k > n then 0 else (List.range k).foldl (fun acc i => acc * (n - i) / (i + 1)) 1

/-- `tab[j][u]` = number of assignments of the groups seen so far (s pooled values) with j members in
    the first sample and 2·U = u. Adding a tie group of size t: choosing r of it for the first
    sample (C(t,r) ways) adds 2·r·(second-sample values below) + r·(t − r) to 2·U. -/
def groupStep (n1 maxU s t : Nat) (tab : Array (Array Nat)) : Array (Array Nat) :=
  let cs := (List.range (t + 1)).map (choose t)
  Array.ofFn (n := n1 + 1) fun j' => Array.ofFn (n := maxU + 1) fun u' =>
    (List.range (min t j'.val + 1)).foldl (fun acc r =>
      let j := j'.val - r
      let d := 2 * r * (s - j) + r * (t - r)
      if d ≤ u'.val then acc + cs.getD r 0 * (tab.getD j #[]).getD (u'.val - d) 0 else acc) 0

def groupTab (n1 maxU : Nat) : List Nat → Nat → Array (Array Nat) → Array (Array Nat)
  | [], _, tab => tab
  | t :: ts, s, tab => groupTab n1 maxU ts (s + t) (groupStep n1 maxU s t tab)

/-- (twoU, count) for assignments with exactly n1 members in the first sample -/
def groupDist (T : List Nat) (n1 : Nat) : List (Nat × Nat) :=
  let N := T.sum
  let maxU := 2 * n1 * (N - n1)
  let init : Array (Array Nat) := Array.ofFn (n := n1 + 1) fun j =>
    Array.ofFn (n := maxU + 1) fun u => if j.val = 0 ∧ u.val = 0 then 1 else 0
  let row := (groupTab n1 maxU T 0 init).getD n1 #[]
  ((List.range (maxU + 1)).map fun u => (u, row.getD u 0)).filter (·.2 ≠ 0)

def gTotal (d : List (Nat × Nat)) : Nat := (d.map (·.2)).sum
def gLess (d : List (Nat × Nat)) (u : Nat) : Rat :=
  ((((d.filter (·.1 ≤ u)).map (·.2)).sum : Nat) : Rat) / ((gTotal d : Nat) : Rat)
def gGreater (d : List (Nat × Nat)) (u : Nat) : Rat :=
  ((((d.filter (·.1 ≥ u)).map (·.2)).sum : Nat) : Rat) / ((gTotal d : Nat) : Rat)
def gTwoSided (d : List (Nat × Nat)) (u : Nat) : Rat :=
  ratMin 1 (2 * ratMin (gLess d u) (gGreater d u))

/-- counts per 2U value from an enumeration (for the cross-check with `groupDist`) -/
def histogram (dist : List Nat) : List (Nat × Nat) :=
  let maxU := dist.foldl max 0
  ((List.range (maxU + 1)).map fun u => (u, (dist.filter (· = u)).length)).filter (·.2 ≠ 0)

/-! ### documented switch points

utest.go documents the defaults: "MannWhitneyExactLimit gives the largest sample size for which the
exact U distribution will be used" = 50 ("two 50 value samples"), and with ties
"MannWhitneyTiesExactLimit" = 25 ("two 25 value samples"). Callers may change the variables (the
model and the p-value specification are parametric in them); the DEFAULTS are part of what "small
enough for the exact method" means for benchstat users. -/
def documentedExactLimit : Nat := 50
def documentedTiesExactLimit : Nat := 25

/-! ### normal approximation (textbook form) -/

/-- σ² = n1·n2/12 · ((N+1) − Σ(t³−t)/(N(N−1))) -/
def sigma2 (n1 n2 tieTerm : Nat) : Rat :=
  let N : Rat := ((n1 + n2 : Nat) : Rat)
  ((n1 * n2 : Nat) : Rat) / 12 * ((N + 1) - ((tieTerm : Nat) : Rat) / (N * (N - 1)))

/-- 2·(U − μ ∓ ½): continuity correction toward the mean for two-sided, +½ for *less*
    (P(U ≤ u)), −½ for *greater* (P(U ≥ u)) -/
def twoNumerLess (twoU n1 n2 : Nat) : Int := (twoU : Int) - ((n1 * n2 : Nat) : Int) + 1
def twoNumerGreater (twoU n1 n2 : Nat) : Int := (twoU : Int) - ((n1 * n2 : Nat) : Int) - 1
def twoNumerTwoSided (twoU n1 n2 : Nat) : Int :=
  let d : Int := (twoU : Int) - ((n1 * n2 : Nat) : Int)
  if d > 0 then d - 1 else if d < 0 then d + 1 else 0

end Spec.UExact
