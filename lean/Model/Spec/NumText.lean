/-
C03 — SPECIFICATION of numeric text (what `strconv.ParseFloat(s, 64)` / `strconv.Atoi(s)` mean).

Short and independent of the algorithms in benchfmt/internal/bytesconv: a grammar recogniser
written with `takeWhile`/`dropWhile`, exact evaluation of the accepted text with unbounded
naturals, and ONE rounding (`F64.ofDecimal` / `F64.ofBinary`).

  float  = special | [sign] (decimal | hex)
  special= "inf" | "infinity" | "+inf" | "+infinity" | "-inf" | "-infinity" | "nan"   (any case)
  decimal= digits [ "." [digits] ] [ ("e"|"E") [sign] digits ]  |  "." digits [ exponent ]
  hex    = "0" ("x"|"X") hexmantissa ("p"|"P") [sign] digits          (the p exponent is mandatory)
  An underscore may appear only between two digits, or between the `0x` prefix and a digit
  (digits = hex digits inside a hex literal); the value is that of the text without underscores.

Range rule: |value| ≥ 2^1024 − 2^970 (the midpoint between MaxFloat64 and 2^1024, which rounds
half-even to 2^1024) is a range error (±Inf); everything smaller is rounded, underflow to ±0 is
not an error.

Core Lean only.
-/
import Model.Base.F64
import Model.Base.Bytes

namespace Spec.NumText

inductive NumErr where
  | syntax
  | range
  deriving Repr, DecidableEq

/-- ASCII lower-casing of letters (only) -/
def lowerc (c : UInt8) : UInt8 := if 65 ≤ c && c ≤ 90 then c + 32 else c

def isDec (c : UInt8) : Bool := 48 ≤ c && c ≤ 57
def isHexDig (c : UInt8) : Bool := isDec c || (97 ≤ lowerc c && lowerc c ≤ 102)

def digVal (c : UInt8) : Nat := if isDec c then c.toNat - 48 else (lowerc c).toNat - 87

/-- value of a digit string in `base` (most significant first) -/
def valOf (base : Nat) (ds : Bytes) : Nat := ds.foldl (fun a c => a * base + digVal c) 0

/-! ### special values -/

/-- the accepted spellings, lower case, as ASCII bytes (byte lists rather than `String`s so that
the kernel can compare them): inf infinity +inf +infinity -inf -infinity nan -/
def specials : List (Bytes × F64.Bits) :=
  [([105, 110, 102], F64.posInf),                                   -- inf
   ([105, 110, 102, 105, 110, 105, 116, 121], F64.posInf),          -- infinity
   ([43, 105, 110, 102], F64.posInf),                               -- +inf
   ([43, 105, 110, 102, 105, 110, 105, 116, 121], F64.posInf),      -- +infinity
   ([45, 105, 110, 102], F64.negInf),                               -- -inf
   ([45, 105, 110, 102, 105, 110, 105, 116, 121], F64.negInf),      -- -infinity
   ([110, 97, 110], F64.nan)]                                       -- nan

def specialSpec (s : Bytes) : Option F64.Bits :=
  (specials.find? fun p => p.1 == s.map lowerc).map (·.2)

/-! ### underscores -/

/-- every `_` is immediately preceded by a digit (or the base prefix: `prev` initially true)
and immediately followed by a digit -/
def underscoresOK (dig : UInt8 → Bool) : Bool → Bytes → Bool
  | _, [] => true
  | prev, c :: cs =>
    if c == 95 then
      prev && (match cs with | d :: _ => dig d | [] => false) && underscoresOK dig false cs
    else underscoresOK dig (dig c) cs

def strip (s : Bytes) : Bytes := s.filter (· != 95)

/-! ### grammar -/

def splitSign : Bytes → Bool × Bytes
  | 43 :: r => (false, r)
  | 45 :: r => (true, r)
  | s => (false, s)

/-- `[sign] digits` covering the whole input -/
def parseExp (s : Bytes) : Option Int :=
  let (neg, ds) := splitSign s
  if ds.isEmpty || !ds.all isDec then none
  else some (if neg then -(valOf 10 ds : Int) else (valOf 10 ds : Int))

/-- mantissa `digits [. digits]` then the exponent part; returns (mantissa, exponent) with
value = mantissa · B^exponent where B = 10 (decimal) or 2 (hex; one hex digit = 4 bits). -/
def parseBody (dig : UInt8 → Bool) (base : Nat) (expChar : UInt8) (bitsPerDigit : Nat) (mustExp : Bool)
    (body : Bytes) : Option (Nat × Int) :=
  let ip := body.takeWhile dig
  let r1 := body.dropWhile dig
  let (fp, r2) := match r1 with
    | 46 :: r' => (r'.takeWhile dig, r'.dropWhile dig)
    | _ => ([], r1)
  if ip.isEmpty && fp.isEmpty then none
  else
    let m := valOf base (ip ++ fp)
    let fe : Int := -((bitsPerDigit * fp.length : Nat) : Int)
    match r2 with
    | [] => if mustExp then none else some (m, fe)
    | c :: r3 => if lowerc c == expChar then (parseExp r3).map fun e => (m, e + fe) else none

structure Parsed where
  neg : Bool
  hex : Bool
  mant : Nat
  exp : Int
  deriving Repr, DecidableEq

def isHexPrefix : Bytes → Bool
  | 48 :: x :: _ => lowerc x == 120
  | _ => false

/-- the grammar: sign, base prefix, underscore rule, mantissa and exponent -/
def recognise (s : Bytes) : Option Parsed :=
  let (neg, body) := splitSign s
  if isHexPrefix body then
    let b := body.drop 2
    if !underscoresOK isHexDig true b then none
    else (parseBody isHexDig 16 112 4 true (strip b)).map fun (m, e) => { neg, hex := true, mant := m, exp := e }
  else
    if !underscoresOK isDec false body then none
    else (parseBody isDec 10 101 1 false (strip body)).map fun (m, e) => { neg, hex := false, mant := m, exp := e }

/-! ### value and range -/

/-- 2^1024 − 2^970: the smallest magnitude that does not round to a finite float64 -/
def overflowThreshold : Nat := 2 ^ 1024 - 2 ^ 970

/-- is mant · B^exp ≥ 2^1024 − 2^970 ? (exact) -/
def overflows (base : Nat) (mant : Nat) (exp : Int) : Bool :=
  if exp ≥ 0 then mant * base ^ exp.toNat ≥ overflowThreshold
  else mant ≥ overflowThreshold * base ^ (-exp).toNat

def Parsed.eval (p : Parsed) : Except NumErr F64.Bits :=
  if p.hex then
    if overflows 2 p.mant p.exp then .error .range else .ok (F64.ofBinary p.neg p.mant p.exp)
  else
    if overflows 10 p.mant p.exp then .error .range else .ok (F64.ofDecimal p.neg p.mant p.exp)

/-- **the specification of `strconv.ParseFloat(s, 64)`** -/
def parseFloatSpec (s : Bytes) : Except NumErr F64.Bits :=
  match specialSpec s with
  | some b => .ok b
  | none =>
    match recognise s with
    | none => .error .syntax
    | some p => p.eval

/-- the value that accompanies a range error: ±Inf by the sign of the text -/
def rangeValue (s : Bytes) : F64.Bits := F64.inf (splitSign s).1

/-! ### integers -/

/-- **the specification of `strconv.Atoi(s)`** on a 64-bit platform: `[sign] digits`, exact. -/
def parseIntSpec (s : Bytes) : Except NumErr Int :=
  let (neg, ds) := splitSign s
  if ds.isEmpty || !ds.all isDec then .error .syntax
  else
    let v : Int := if neg then -(valOf 10 ds : Int) else (valOf 10 ds : Int)
    if v < -(2 ^ 63 : Int) || v > (2 ^ 63 : Int) - 1 then .error .range else .ok v

/-- value accompanying an integer range error: clamped -/
def intRangeValue (s : Bytes) : Int :=
  if (splitSign s).1 then -(2 ^ 63 : Int) else (2 ^ 63 : Int) - 1

end Spec.NumText
