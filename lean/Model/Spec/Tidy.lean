/-
Specification of unit normalisation (property C04), written without positions, edit lists or
fast paths:

  a unit is a sequence of runes; the separator runes are `*`, `/`, `-` and Unicode white space;
  a *component* is a maximal run of non-separator runes; a component is in the numerator unless
  the nearest preceding `*` or `/` is a `/`;
  tidy u  =  u with every numerator component `ns` replaced by `sec` and every numerator
  component `MB` replaced by `B`, everything else byte for byte, together with the factor obtained
  from 1 by `/ 1e9` per replaced `ns` and `* 1e6` per replaced `MB`, left to right, in float64.
-/
import Model.Base.F64
import Model.Base.Utf8

namespace Spec.Tidy

/-- the runes of a byte string with their encodings (an invalid byte is a rune of its own) -/
def runes : Nat → Bytes → List (Nat × Bytes)
  | 0, _ => []
  | _, [] => []
  | fuel + 1, b :: bs =>
    let (r, w) := Utf8.decodeRune (b :: bs)
    (r, (b :: bs).take w) :: runes fuel ((b :: bs).drop w)

def isSep (r : Nat) : Bool := r == 42 || r == 47 || r == 45 || Utf8.isSpace r

inductive Piece where
  | sep (r : Nat) (enc : Bytes)
  | word (w : Bytes)
  deriving Repr, DecidableEq

/-- group maximal runs of non-separator runes into components -/
def group : List (Nat × Bytes) → List Piece
  | [] => []
  | (r, enc) :: rest =>
    if isSep r then .sep r enc :: group rest
    else match group rest with
      | .word w :: ps => .word (enc ++ w) :: ps
      | ps => .word enc :: ps

def pieces (u : Bytes) : List Piece := group (runes u.length u)

def ns : Bytes := [110, 115]
def mb : Bytes := [77, 66]
def sec : Bytes := [115, 101, 99]
def b : Bytes := [66]
def e9 : F64.Bits := 0x41CDCD6500000000   -- 1e9
def e6 : F64.Bits := 0x412E848000000000   -- 1e6

/-- rewrite left to right; `denom` = the nearest preceding `*`/`/` is a `/` -/
def rewrite : Bool → F64.Bits → List Piece → Bytes × F64.Bits
  | _, f, [] => ([], f)
  | denom, f, .sep r enc :: ps =>
    let d := if r == 42 then false else if r == 47 then true else denom
    let (out, f') := rewrite d f ps
    (enc ++ out, f')
  | denom, f, .word w :: ps =>
    if !denom && w == ns then
      let (out, f') := rewrite denom (F64.div f e9) ps
      (sec ++ out, f')
    else if !denom && w == mb then
      let (out, f') := rewrite denom (F64.mul f e6) ps
      (b ++ out, f')
    else
      let (out, f') := rewrite denom f ps
      (w ++ out, f')

/-- the base unit and the conversion factor -/
def tidyUnit (u : Bytes) : Bytes × F64.Bits := rewrite false F64.one (pieces u)

/-- the normalised measurement -/
def tidy (v : F64.Bits) (u : Bytes) : F64.Bits × Bytes :=
  (F64.mul v (tidyUnit u).2, (tidyUnit u).1)

/-- numerator components of a unit -/
def numerator : Bool → List Piece → List Bytes
  | _, [] => []
  | denom, .sep r _ :: ps => numerator (if r == 42 then false else if r == 47 then true else denom) ps
  | denom, .word w :: ps => if denom then numerator denom ps else w :: numerator denom ps

/-- "expressed in a base unit": no numerator component is `ns` or `MB` -/
def isBase (u : Bytes) : Bool := (numerator false (pieces u)).all fun w => w != ns && w != mb

/-- what a reader must report for a measurement written as (v, u):
(value, unit, original value, original unit); the original pair is present exactly when the
unit changed. -/
def report (v : F64.Bits) (u : Bytes) : F64.Bits × Bytes × F64.Bits × Bytes :=
  let (tv, tu) := tidy v u
  if tu == u then (v, u, 0, []) else (tv, tu, v, u)

end Spec.Tidy
