/-
Specification side of property C07 (search layer S), written without reference to the
tokenizer/parser model: simple, sound classes of texts that the property says must be rejected,
the documented shape of a bare word, and what a quoted string must denote.
Core Lean only.
-/
import Model.Base.Bytes

namespace Spec.Expr
open Bytes

def has (t : Bytes) (c : UInt8) : Bool := t.any (· == c)
def asciiSpace (c : UInt8) : Bool := c == 0x20 || (9 ≤ c && c ≤ 13)
def isOpByte (c : UInt8) : Bool := c == 40 || c == 41 || c == 58 || c == 64 || c == 44

/-- parenthesis balance over bytes: never negative, zero at the end -/
def balanced : Bytes → Nat → Bool
  | [], d => d == 0
  | c :: r, d =>
    if c == 40 then balanced r (d + 1)
    else if c == 41 then (if d == 0 then false else balanced r (d - 1))
    else balanced r d

/-- no quote and no slash: every parenthesis byte is an operator token -/
def plain (t : Bytes) : Bool := !has t 34 && !has t 47

def unbalancedParens (t : Bytes) : Bool := plain t && !balanced t 0

/-- text = pre ++ '"' ++ body: pre plain and empty or ending in white space / operator, body
without any further quote -/
def unterminatedQuote (t : Bytes) : Bool :=
  let pre := t.takeWhile (· != 34)
  let post := t.dropWhile (· != 34)
  match post with
  | [] => false
  | _ :: body =>
    !has body 34 && !has pre 47 &&
      (match pre.getLast? with
       | none => true
       | some c => asciiSpace c || isOpByte c)

/-- the last '/' of a quote-free text directly follows ':' and no other '/' precedes it -/
def unterminatedRegexp (t : Bytes) : Bool :=
  let pre := t.takeWhile (· != 47)
  let post := t.dropWhile (· != 47)
  match post with
  | [] => false
  | _ :: body => !has t 34 && !has body 47 && pre.getLast? == some 58

def filterNeutral (c : UInt8) : Bool :=
  asciiSpace c || c == 42 || c == 45 || c == 40 || c == 41 || c == 65 || c == 78 || c == 68 || c == 79 || c == 82

/-- an ASCII text without ':' that holds something other than operators, AND/OR letters, blanks -/
def missingColon (t : Bytes) : Bool :=
  t.all (· < 0x80) && !has t 58 && t.any (fun c => !filterNeutral c)

/-- '@' blanks '(' blanks ')' somewhere in a quote-free text -/
def emptyFixedList : Bytes → Bool
  | [] => false
  | c :: r =>
    (c == 64 &&
      (match r.dropWhile asciiSpace with
       | d :: r2 => d == 40 && (match r2.dropWhile asciiSpace with | e :: _ => e == 41 | [] => false)
       | [] => false)) || emptyFixedList r

def emptyFixed (t : Bytes) : Bool := !has t 34 && emptyFixedList t

def plainWordByte (c : UInt8) : Bool :=
  (48 ≤ c && c ≤ 57) || (65 ≤ c && c ≤ 90) || (97 ≤ c && c ≤ 122) || c == 46 || c == 95

def plainWord (w : Bytes) : Bool := !w.isEmpty && w.all plainWordByte

/-- the documented named orders (benchproc/syntax: "alpha" or "num") -/
def documentedOrder (o : Bytes) : Bool := o == Bytes.ofString "alpha" || o == Bytes.ofString "num"

/-- text is exactly `key@order` with plain words; returns the order -/
def keyAtOrder (t : Bytes) : Option Bytes :=
  let k := t.takeWhile (· != 64)
  match t.dropWhile (· != 64) with
  | [] => none
  | _ :: o => if plainWord k && plainWord o then some o else none

def splitOn (p : UInt8 → Bool) : Bytes → Bytes → List Bytes
  | [], cur => [cur.reverse]
  | c :: r, cur => if p c then cur.reverse :: splitOn p r [] else splitOn p r (c :: cur)

/-- a field `.unit` (optionally with `@…`) among blank/comma separated fields, no quotes or parens -/
def unitField (t : Bytes) : Bool :=
  !has t 34 && !has t 40 && !has t 41 &&
    (splitOn (fun c => asciiSpace c || c == 44) t []).any fun p =>
      p == Bytes.ofString ".unit" || hasPrefix p (Bytes.ofString ".unit@")

/-- `.config:` at the start or after a blank or '(' in a plain text -/
def configTerm (t : Bytes) : Bool :=
  let pat := Bytes.ofString ".config:"
  let rec go (prevOK : Bool) : Bytes → Bool
    | [] => false
    | c :: r => (prevOK && hasPrefix (c :: r) pat) || go (asciiSpace c || c == 40) r
  plain t && go true t

def mustRejectFilter (t : Bytes) : Option String :=
  if unbalancedParens t then some "unbalanced"
  else if unterminatedQuote t then some "quote"
  else if unterminatedRegexp t then some "regexp"
  else if missingColon t then some "colon"
  else if configTerm t then some "config"
  else none

/-- `first` (the internal name of the default order) is tolerated; the literal name `fixed`
would be an empty fixed list and must be rejected (finding N8, repaired in 147e6a6) -/
def mustRejectProj (t : Bytes) : Option String :=
  if unbalancedParens t then some "unbalanced"
  else if unterminatedQuote t then some "quote"
  else if emptyFixed t then some "emptyfixed"
  else if unitField t then some "unit"
  else match keyAtOrder t with
    | some o => if documentedOrder o || o == Bytes.ofString "first" then none
                else some "order"
    | none => none

/-- a string usable as the name of a file-configuration key -/
def usableKey (s : Bytes) : Bool :=
  match s with
  | [] => false
  | c :: _ => c != 46 && c != 47

/-- the documented bare word `[^-*"():@,][^ ():@,]*` (white space: `isSp` on the decoded runes is
supplied by the caller as a byte-level test result), not AND / OR, and in value position not
starting a regexp -/
def bareSafe (hasSpace : Bool) (w : Bytes) : Bool :=
  match w with
  | [] => false
  | c :: _ =>
    !hasSpace && !w.any isOpByte && c != 45 && c != 42 && c != 34 && c != 47 &&
      w != Bytes.ofString "AND" && w != Bytes.ofString "OR"

end Spec.Expr
