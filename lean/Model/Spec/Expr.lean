/-
Specification side of property C07 (search layer S), written without reference to the
tokenizer/parser model: simple, sound classes of texts that the property says must be rejected,
the documented shape of a bare word, and what a quoted string must denote.
Core Lean only.
-/
import Model.Base.Bytes

namespace Spec.Expr
open Bytes

def has (t : Bytes) (c : UInt8) : Bool := t.any (· == c)
def asciiSpace (c : UInt8) : Bool := c == 0x20 || (9 ≤ c && c ≤ 13)
def isOpByte (c : UInt8) : Bool := c == 40 || c == 41 || c == 58 || c == 64 || c == 44

/-- parenthesis balance over bytes: never negative, zero at the end -/
def balanced : Bytes → Nat → Bool
  | [], d => d == 0
  | c :: r, d =>
    if c == 40 then balanced r (d + 1)
    else if c == 41 then (if d == 0 then false else balanced r (d - 1))
    else balanced r d

/-- no quote and no slash: every parenthesis byte is an operator token -/
def plain (t : Bytes) : Bool := !has t 34 && !has t 47

def unbalancedParens (t : Bytes) : Bool := plain t && !balanced t 0

/-- text = pre ++ '"' ++ body: pre plain and empty or ending in white space / operator, body
without any further quote -/
def unterminatedQuote (t : Bytes) : Bool :=
  let pre := t.takeWhile (· != 34)
  let post := t.dropWhile (· != 34)
  match post with
  | [] => false
  | _ :: body =>
    !has body 34 && !has pre 47 &&
      (match pre.getLast? with
       | none => true
       | some c => asciiSpace c || isOpByte c)

/-- the last '/' of a quote-free text directly follows ':' and no other '/' precedes it -/
def unterminatedRegexp (t : Bytes) : Bool :=
  let pre := t.takeWhile (· != 47)
  let post := t.dropWhile (· != 47)
  match post with
  | [] => false
  | _ :: body => !has t 34 && !has body 47 && pre.getLast? == some 58

def filterNeutral (c : UInt8) : Bool :=
  asciiSpace c || c == 42 || c == 45 || c == 40 || c == 41 || c == 65 || c == 78 || c == 68 || c == 79 || c == 82

/-- an ASCII text without ':' that holds something other than operators, AND/OR letters, blanks -/
def missingColon (t : Bytes) : Bool :=
  t.all (· < 0x80) && !has t 58 && t.any (fun c => !filterNeutral c)

/-- '@' blanks '(' blanks ')' somewhere in a quote-free text -/
def emptyFixedList : Bytes → Bool
  | [] => false
  | c :: r =>
    (c == 64 &&
      (match r.dropWhile asciiSpace with
       | d :: r2 => d == 40 && (match r2.dropWhile asciiSpace with | e :: _ => e == 41 | [] => false)
       | [] => false)) || emptyFixedList r

def emptyFixed (t : Bytes) : Bool := !has t 34 && emptyFixedList t

def plainWordByte (c : UInt8) : Bool :=
  (48 ≤ c && c ≤ 57) || (65 ≤ c && c ≤ 90) || (97 ≤ c && c ≤ 122) || c == 46 || c == 95

def plainWord (w : Bytes) : Bool := !w.isEmpty && w.all plainWordByte

/-- the documented named orders (benchproc/syntax: "alpha" or "num") -/
def documentedOrder (o : Bytes) : Bool := o == Bytes.ofString "alpha" || o == Bytes.ofString "num"

/-- text is exactly `key@order` with plain words; returns the order -/
def keyAtOrder (t : Bytes) : Option Bytes :=
  let k := t.takeWhile (· != 64)
  match t.dropWhile (· != 64) with
  | [] => none
  | _ :: o => if plainWord k && plainWord o then some o else none

def splitOn (p : UInt8 → Bool) : Bytes → Bytes → List Bytes
  | [], cur => [cur.reverse]
  | c :: r, cur => if p c then cur.reverse :: splitOn p r [] else splitOn p r (c :: cur)

/-- a field `.unit` (optionally with `@…`) among blank/comma separated fields, no quotes or parens -/
def unitField (t : Bytes) : Bool :=
  !has t 34 && !has t 40 && !has t 41 &&
    (splitOn (fun c => asciiSpace c || c == 44) t []).any fun p =>
      p == Bytes.ofString ".unit" || hasPrefix p (Bytes.ofString ".unit@")

/-- `.config:` at the start or after a blank or '(' in a plain text -/
def configTerm (t : Bytes) : Bool :=
  let pat := Bytes.ofString ".config:"
  let rec go (prevOK : Bool) : Bytes → Bool
    | [] => false
    | c :: r => (prevOK && hasPrefix (c :: r) pat) || go (asciiSpace c || c == 40) r
  plain t && go true t

/-! ### simple projections: blank/comma separated `key` or `key@order`, words plain or quoted-plain

This class states the "unknown sort order is always rejected" clause for order names written in
any simple way, including quoted and EMPTY ones (`a@""`), and conversely that a simple projection
with documented orders is accepted. -/

def keyByte (c : UInt8) : Bool := plainWordByte c || c == 47

/-- a plain word, or a double-quoted run of plain bytes (possibly empty): its content -/
def simpleWord (w : Bytes) : Option Bytes :=
  match w with
  | [] => none
  | c :: r =>
    if c == 34 then
      match r.reverse with
      | d :: inner => if d == 34 && inner.all keyByte then some inner.reverse else none
      | [] => none
    else if w.all keyByte then some w else none

/-- `key` or `key@order` -/
def simpleField (p : Bytes) : Option (Bytes × Option Bytes) :=
  let k := p.takeWhile (· != 64)
  match p.dropWhile (· != 64) with
  | [] => (simpleWord k).map fun k => (k, none)
  | _ :: o =>
    if has o 64 then none
    else match simpleWord k, simpleWord o with
      | some k, some o => some (k, some o)
      | _, _ => none

/-- pieces of a text separated by runs of ASCII blanks and commas: (start offset, piece, number of
commas in the separator run before it), and the number of commas after the last piece -/
def scanPieces : Bytes → Nat → Nat → Option (Nat × Bytes) → List (Nat × Bytes × Nat) → List (Nat × Bytes × Nat) × Nat
  | [], _, commas, cur, acc =>
    match cur with
    | some (st, rev) => ((acc ++ [(st, rev.reverse, commas)]), 0)
    | none => (acc, commas)
  | c :: r, idx, commas, cur, acc =>
    if asciiSpace c || c == 44 then
      match cur with
      | some (st, rev) => scanPieces r (idx + 1) (if c == 44 then 1 else 0) none (acc ++ [(st, rev.reverse, commas)])
      | none => scanPieces r (idx + 1) (if c == 44 then commas + 1 else commas) none acc
    else
      match cur with
      | some (st, rev) => scanPieces r (idx + 1) commas (some (st, c :: rev)) acc
      | none => scanPieces r (idx + 1) commas (some (idx, [c])) acc

/-- commas where the grammar `part {","? part}` has none: before the first field, two between
fields, or after the last field -/
def badComma (t : Bytes) : Bool :=
  let (items, trailing) := scanPieces t 0 0 none []
  !has t 34 && t.all (· < 0x80) &&
    (trailing > 0 || (match items with
      | [] => false
      | (_, _, c0) :: rest => c0 > 0 || rest.any (fun it => it.2.2 > 1)))

/-- simple projection: fields with their start offsets -/
def simpleProjAt (t : Bytes) : Option (List (Nat × Bytes × Option Bytes)) :=
  if has t 40 || has t 41 || has t 92 || !t.all (· < 0x80) then none
  else
    let (items, trailing) := scanPieces t 0 0 none []
    let commasOK := trailing == 0 && (match items with
      | [] => false
      | (_, _, c0) :: rest => c0 == 0 && rest.all (fun it => it.2.2 ≤ 1))
    if !commasOK then none
    else items.mapM fun it => (simpleField it.2.1).map fun f => (it.1, f.1, f.2)

def simpleProj (t : Bytes) : Option (List (Bytes × Option Bytes)) :=
  (simpleProjAt t).map fun fs => fs.map fun f => (f.2.1, f.2.2)

def acceptableOrder (o : Bytes) : Bool := documentedOrder o || o == Bytes.ofString "first"

/-- some field of a simple projection names an order that does not exist (also `""`, `"x"`, `fixed`),
has the key `.unit`, or an empty key -/
def simpleProjBad (fs : List (Bytes × Option Bytes)) : Option String :=
  if fs.any (fun f => match f.2 with | some o => !acceptableOrder o | none => false) then some "order"
  else if fs.any (fun f => f.1 == Bytes.ofString ".unit") then some "unit"
  else if fs.any (fun f => f.1.isEmpty) then some "emptykey"
  else none

def fieldBad (f : Bytes × Option Bytes) : Bool :=
  (match f.2 with | some o => !acceptableOrder o | none => false) ||
    f.1 == Bytes.ofString ".unit" || f.1.isEmpty

/-- byte span [start, end] of the first rejected field of a simple projection: the error must be
positioned there (at its key or at its order name) -/
def firstBadSpan (t : Bytes) : Option (Nat × Nat) :=
  match simpleProjAt t with
  | none => none
  | some fs =>
    -- the source length of a piece is recovered from the next separator
    let (items, _) := scanPieces t 0 0 none []
    let spans := items.map fun it => (it.1, it.1 + it.2.1.length)
    let isAndOr := fun (w : Bytes) => w == Bytes.ofString "AND" || w == Bytes.ofString "OR"
    -- bare AND / OR are operators: the text then fails earlier, as a syntax error (no demand)
    if fs.any (fun f => isAndOr f.2.1 || (match f.2.2 with | some o => isAndOr o | none => false)) then none
    else ((fs.zip spans).find? fun p => fieldBad (p.1.2.1, p.1.2.2)).map (·.2)

/-- a simple projection with nothing wrong must be accepted (bare AND / OR are operators, not keys:
no demand then) -/
def mustAcceptProj (t : Bytes) : Bool :=
  match simpleProj t with
  | some fs => simpleProjBad fs == none &&
      !fs.any (fun f => f.1 == Bytes.ofString "AND" || f.1 == Bytes.ofString "OR" ||
        f.2 == some (Bytes.ofString "AND") || f.2 == some (Bytes.ofString "OR"))
  | none => false

/-! ### denotation of filters built from one key and several spellings of words -/

/-- one term `[-]k:<word>`: negated?, form (76 'L' literal bare-or-quoted, 81 'Q' quoted, 82 'R'
regexp `/word/`), the word -/
structure DTerm where
  neg : Bool
  form : UInt8
  word : Bytes

/-- does the term hold for a result whose value is `probe`?  A literal — however it is spelled —
matches exactly its own text; a regexp matches what the regexp oracle `rm` says. -/
def dtermHolds (t : DTerm) (probe : Bytes) (rm : Bool) : Bool :=
  let m := if t.form == 82 then rm else probe == t.word
  if t.neg then !m else m

/-- `conn`: 0 = OR of the terms (also the `k:(a OR b)` list form), 1 = AND -/
def denote (conn : Nat) (ts : List (DTerm × Bool)) (probe : Bytes) : Bool :=
  if conn == 1 then ts.all (fun p => dtermHolds p.1 probe p.2) else ts.any (fun p => dtermHolds p.1 probe p.2)

def mustRejectFilter (t : Bytes) : Option String :=
  if unbalancedParens t then some "unbalanced"
  else if unterminatedQuote t then some "quote"
  else if unterminatedRegexp t then some "regexp"
  else if missingColon t then some "colon"
  else if configTerm t then some "config"
  else none

/-- `first` (the internal name of the default order) is tolerated; the literal name `fixed`
would be an empty fixed list and must be rejected (finding N8, repaired in 147e6a6) -/
def mustRejectProj (t : Bytes) : Option String :=
  if unbalancedParens t then some "unbalanced"
  else if badComma t then some "comma"
  else if unterminatedQuote t then some "quote"
  else if emptyFixed t then some "emptyfixed"
  else if unitField t then some "unit"
  else match keyAtOrder t with
    | some o => if documentedOrder o || o == Bytes.ofString "first" then none
                else some "order"
    | none =>
      match simpleProj t with
      | some fs => simpleProjBad fs
      | none => none

/-- a string usable as the name of a file-configuration key -/
def usableKey (s : Bytes) : Bool :=
  match s with
  | [] => false
  | c :: _ => c != 46 && c != 47

/-- the documented bare word `[^-*"():@,][^ ():@,]*` (white space: `isSp` on the decoded runes is
supplied by the caller as a byte-level test result), not AND / OR, and in value position not
starting a regexp -/
def bareSafe (hasSpace : Bool) (w : Bytes) : Bool :=
  match w with
  | [] => false
  | c :: _ =>
    !hasSpace && !w.any isOpByte && c != 45 && c != 42 && c != 34 && c != 47 &&
      w != Bytes.ofString "AND" && w != Bytes.ofString "OR"

/-- the documented bare word in a projection (key, or member of a fixed list): `/` is an ordinary
character there — projections have no regexps -/
def bareSafeProj (hasSpace : Bool) (w : Bytes) : Bool :=
  match w with
  | [] => false
  | c :: _ =>
    !hasSpace && !w.any isOpByte && c != 45 && c != 42 && c != 34 &&
      w != Bytes.ofString "AND" && w != Bytes.ofString "OR"

end Spec.Expr
