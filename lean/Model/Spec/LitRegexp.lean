/-
Specification of "matches" for the literal sub-language of regular expressions that filter terms
use most: an optional start anchor (`^` or `\A`), a literal (plain bytes, `\/`-style escapes of
punctuation, optionally wrapped in one non-capturing group `(?:…)`), an optional end anchor (`$`
or `\z`). Without flags `^`/`$` are text anchors in Go's regexp (RE2) — `matches` says: the value
is  p ++ literal ++ s  with p empty under a start anchor and s empty under an end anchor.
Independent of Go's regexp and of `FilterMatch.Match`; the driver uses it for S on such terms and
counts disagreements with the regexp oracle (`lmiss=`).  Core Lean only.
-/
import Model.Base.Bytes

namespace Spec.LitRegexp
open Bytes

structure LitRe where
  anchS : Bool
  lit : Bytes
  anchE : Bool
  deriving Repr, DecidableEq

def isMeta (c : UInt8) : Bool :=
  c == 92 || c == 46 || c == 43 || c == 42 || c == 63 || c == 40 || c == 41 || c == 124 ||
  c == 91 || c == 93 || c == 123 || c == 125 || c == 94 || c == 36

/-- punctuation that may be escaped with a backslash to stand for itself -/
def isPunct (c : UInt8) : Bool :=
  (33 ≤ c && c ≤ 47) || (58 ≤ c && c ≤ 64) || (91 ≤ c && c ≤ 96) || (123 ≤ c && c ≤ 126)

/-- the literal part: plain bytes and escaped punctuation; `none` if anything else occurs -/
def litBody : Bytes → Option Bytes
  | [] => some []
  | c :: r =>
    if c == 92 then
      match r with
      | d :: r' => if isPunct d then (litBody r').map (d :: ·) else none
      | [] => none
    else if isMeta c || c ≥ 0x80 then none
    else (litBody r).map (c :: ·)

def stripStart (s : Bytes) : Bool × Bytes :=
  match s with
  | 94 :: r => (true, r)                 -- ^
  | 92 :: 65 :: r => (true, r)           -- \A
  | _ => (false, s)

/-- end anchor, looking at the reversed text -/
def stripEndRev (s : Bytes) : Bool × Bytes :=
  match s with
  | 122 :: 92 :: r => (true, r)          -- \z
  | 36 :: 92 :: _ => (false, s)          -- \$ is an escaped dollar, not an anchor
  | 36 :: r => (true, r)                 -- $
  | _ => (false, s)

/-- `(?:body)` → body -/
def stripGroup (s : Bytes) : Bytes :=
  match s with
  | 40 :: 63 :: 58 :: r =>
    match r.reverse with
    | 41 :: m => m.reverse
    | _ => s
  | _ => s

def parse (src : Bytes) : Option LitRe :=
  let (a, r1) := stripStart src
  let (z, r2) := stripEndRev r1.reverse
  match litBody (stripGroup r2.reverse) with
  | some l => some { anchS := a, lit := l, anchE := z }
  | none => none

/-- `bytes.HasSuffix` -/
def hasSuffix (v l : Bytes) : Bool := hasPrefix v.reverse l.reverse

def LitRe.matches (r : LitRe) (v : Bytes) : Bool :=
  match r.anchS, r.anchE with
  | true, true => v == r.lit
  | true, false => hasPrefix v r.lit
  | false, true => hasSuffix v r.lit
  | false, false => contains v r.lit

end Spec.LitRegexp
