/-
C17 — specification of the legacy benchstat tables, written independently of the stateful
model in Model/Legacy/Collection.lean:

  part A  definitions the theorems of Proofs/C17.lean are stated against
          (R8 quartile, fence, retained values, gate, direction, first appearance, stable sort);
  part B  the S-layer judge: given only the raw input and the *implementation's* dump it
          recomputes the fence in exact rational arithmetic, min/mean/max membership, the
          expected tables/rows/order, gate, direction, delta and note texts and the geomean
          (Float log/exp, tolerance 1e-9) and returns a verdict string ("ok" or what is wrong).
Core Lean only.
-/
import Model.Legacy.Collection
import Model.Base.DecText

namespace Spec.Legacy
open _root_.Legacy _root_.F64

/-! ## Part A — specification-level definitions -/

/-- interpolation method R8 of Hyndman & Fan on the ascending sample `s` of size N, 0 < p < 1:
h = 1/3 + p·(N + 1/3); x_⌊h⌋ + (h − ⌊h⌋)·(x_⌊h⌋+1 − x_⌊h⌋), clamped to the ends. -/
def r8 (xs : List Bits) (p : Bits) : Bits :=
  if xs.isEmpty then nan else
  let s := sortF xs
  let h := add cThird (mul p (add (ofInt xs.length) cThird))
  let k := floorNat h
  if k == 0 then s.headD nan
  else if k ≥ s.length then s.getLastD nan
  else add (s.getD (k - 1) nan) (mul (sub h (ofInt k)) (sub (s.getD k nan) (s.getD (k - 1) nan)))

/-- the outlier fence: [q1 − 1.5·IQR, q3 + 1.5·IQR] -/
def fence (xs : List Bits) : Bits × Bits :=
  let q1 := r8 xs c0_25
  let q3 := r8 xs c0_75
  (sub q1 (mul c1_5 (sub q3 q1)), add q3 (mul c1_5 (sub q3 q1)))

/-- retained values: exactly the values inside the fence, in input order, each once -/
def retained (xs : List Bits) : List Bits :=
  xs.filter fun v => le (fence xs).1 v && le v (fence xs).2

/-- a delta is shown iff the test gave no error and p < alpha -/
def shown (t : TestRes) (alpha : Bits) : Bool :=
  match t with
  | .p v => lt v alpha
  | _ => false

/-- the documented delta: (new mean / old mean − 1)·100 -/
def deltaValue (old new : Bits) : Bits := mul (sub (div new old) one) c100

/-- the only metric for which higher is better is the speed metric: unit MB/s
(a unit literally called "speed" displays under the same metric name) -/
def higherIsBetter (unit : Str) : Bool := unit == str "MB/s" || unit == str "speed"

/-- list of first appearances -/
def firstAppearance (l : List Str) : List Str :=
  l.foldl (fun acc s => if acc.contains s then acc else acc ++ [s]) []

/-- the documented note of an undecided / decided comparison -/
def noteOf (t : TestRes) (nOld nNew : Nat) : String :=
  match t with
  | .errZeroVariance => "(zero variance)"
  | .errSampleSize => "(too few samples)"
  | .errSamplesEqual => "(all equal)"
  | .errOther msg => "(" ++ msg ++ ")"
  | .p v => if eq v cNeg1 then "" else "(p=" ++ fmtF false v 3 ++ " n=" ++ toString nOld ++ "+" ++ toString nNew ++ ")"

/-! ## Part B — the judge -/

def toRat (b : Bits) : Rat :=
  let (s, n, d) := toRatParts b
  let q : Rat := mkRat n d
  if s then -q else q

def rabs (q : Rat) : Rat := if q < 0 then -q else q

def insertQ (x : Rat) : List Rat → List Rat
  | [] => [x]
  | y :: ys => if x < y then x :: y :: ys else y :: insertQ x ys

def sortQ (xs : List Rat) : List Rat := xs.foldl (fun acc x => insertQ x acc) []

/-- exact R8 quantile on an ascending list -/
def r8Q (s : List Rat) (p : Rat) : Rat :=
  let N : Rat := (s.length : Nat)
  let third : Rat := mkRat 1 3
  let h := third + p * (N + third)
  let k : Nat := h.num.toNat / h.den
  if k == 0 then s.headD 0
  else if k ≥ s.length then s.getLastD 0
  else
    let a := s.getD (k - 1) 0
    let b := s.getD k 0
    a + (h - (k : Nat)) * (b - a)

/-- walk the raw values and the implementation's retained list together -/
def matchRetained (lo hi eps : Rat) : List Bits → List Bits → Bool
  | [], rv => rv.isEmpty
  | v :: vs, rv =>
    let x := toRat v
    if x < lo - eps || x > hi + eps then matchRetained lo hi eps vs rv
    else if lo + eps ≤ x && x ≤ hi - eps then
      match rv with
      | r :: rs => r == v && matchRetained lo hi eps vs rs
      | [] => false
    else
      match rv with
      | r :: rs => if r == v then matchRetained lo hi eps vs rs else matchRetained lo hi eps vs rv
      | [] => matchRetained lo hi eps vs []

def pow2 (n : Nat) : Rat := mkRat 1 (2 ^ n)

/-- verdict on one metric: raw values, and the implementation's retained list, min, mean, max -/
def judgeStats (vals rv : List Bits) (mn mean mx : Bits) : String :=
  if vals.isEmpty then "no-values"
  else if vals.any (fun v => !isFinite v) then
    -- non-finite inputs: the fence is judged by the correspondence only, but NaN is never inside a fence
    (if rv.any isNaN then "nan-retained" else "ok")
  else
    let qs := vals.map toRat
    let s := sortQ qs
    let q1 := r8Q s (mkRat 1 4)
    let q3 := r8Q s (mkRat 3 4)
    let lo := q1 - mkRat 3 2 * (q3 - q1)
    let hi := q3 + mkRat 3 2 * (q3 - q1)
    let big := qs.foldl (fun a x => if rabs x > a then rabs x else a) 0
    -- with a zero interquartile range the float computation of the fence is exact (q ± 1.5·0)
    let eps := if q1 == q3 then 0 else big * pow2 40
    if !matchRetained lo hi eps vals rv then "retained"
    else if rv.isEmpty then (if isNaN mn && isNaN mean && isNaN mx then "ok" else "empty-not-nan")
    else
      let rq := rv.map toRat
      let mnQ := rq.foldl (fun a x => if x < a then x else a) (rq.headD 0)
      let mxQ := rq.foldl (fun a x => if x > a then x else a) (rq.headD 0)
      if !isFinite mn || !rv.contains mn || toRat mn != mnQ then "min"
      else if !isFinite mx || !rv.contains mx || toRat mx != mxQ then "max"
      else if !isFinite mean then "mean-not-finite"
      else if !(le mn mean && le mean mx) then "mean-outside-min-max"
      else
        let exact := rq.foldl (· + ·) 0 / ((rq.length : Nat) : Rat)
        let bound := (if rabs mnQ > rabs mxQ then rabs mnQ else rabs mxQ) * pow2 44 + mkRat 8 (2 ^ 1074)
        if rabs (toRat mean - exact) > bound then "mean-inaccurate" else "ok"

/-! ### the raw input, declaratively -/

structure Sample where
  cfg : Str
  group : Str
  bench : Str
  unit : Str
  val : Bits

def pairsOf : List Str → List (Str × Str)
  | v :: u :: rest => (v, u) :: pairsOf rest
  | _ => []

/-- the measurements one line contributes -/
def lineSamples (N : Num) (splitBy : List Str) (cfg : Str) (r : Result) : List Sample :=
  let f := fields r.content
  if f.length < 4 then [] else
  let name := f.headD []
  if !Bytes.hasPrefix name (str "Benchmark") then [] else
  if N.atoi ((f.drop 1).headD []) == 0 then [] else
  (pairsOf (f.drop 2)).filterMap fun (v, u) =>
    (N.parseFloat v).map fun x => { cfg := cfg, group := makeGroup splitBy r, bench := name.drop 9, unit := u, val := x }

structure Input where
  configs : List Str            -- one per AddResults call
  samples : List Sample

def ofInput (N : Num) (splitBy : List Str) (cfgs : List Str) (results : List (Nat × Result)) : Input :=
  { configs := cfgs
    samples := (cfgs.zipIdx).flatMap fun (cfg, i) =>
      (results.filter (·.1 == i)).flatMap fun (_, r) => lineSamples N splitBy cfg r }

def Input.valuesOf (inp : Input) (cfg g b u : Str) : List Bits :=
  (inp.samples.filter fun s => s.cfg == cfg && s.group == g && s.bench == b && s.unit == u).map (·.val)

def Input.units (inp : Input) : List Str := firstAppearance (inp.samples.map (·.unit))
def Input.groups (inp : Input) : List Str := firstAppearance (inp.samples.map (·.group))
def Input.benches (inp : Input) (g : Str) : List Str :=
  firstAppearance ((inp.samples.filter (·.group == g)).map (·.bench))

/-- the class of the known finding N17ovf: some metric's finite values span at least 2^1024 − 2^970, i.e.
`Max − Min` is not representable in float64, so the quartile interpolation and stats.Mean's `x − m` can
overflow (theorems mean_overflow_counterexample, fence_overflow_counterexample) -/
def spanOverflows (vals : List Bits) : Bool :=
  if vals.isEmpty || vals.any (fun v => !isFinite v) then false
  else
    let qs := vals.map toRat
    let mn := qs.foldl (fun a x => if x < a then x else a) (qs.headD 0)
    let mx := qs.foldl (fun a x => if x > a then x else a) (qs.headD 0)
    decide (mx - mn ≥ (2 : Rat) ^ 1024 - (2 : Rat) ^ 970)

def Input.overflowClass (inp : Input) : Bool :=
  (firstAppearance inp.configs).any fun cfg => inp.units.any fun u => inp.groups.any fun g =>
    (inp.benches g).any fun b => spanOverflows (inp.valuesOf cfg g b u)

structure ImplMetric where
  cfg : Str
  group : Str
  bench : Str
  unit : Str
  rv : List Bits
  min : Bits
  mean : Bits
  max : Bits

/-- all metrics of the implementation, in canonical order, against the recomputation -/
def judgeAll (ims : List ImplMetric) (inp : Input) : String :=
  let expected := (firstAppearance inp.configs).flatMap fun cfg => inp.units.flatMap fun u =>
    inp.groups.flatMap fun g => (inp.benches g).filterMap fun b =>
      if (inp.valuesOf cfg g b u).isEmpty then none else some (cfg, g, b, u)
  if expected != ims.map (fun m => (m.cfg, m.group, m.bench, m.unit)) then "keys"
  else
    let bad := (ims.zipIdx).filterMap fun (m, i) =>
      let v := judgeStats (inp.valuesOf m.cfg m.group m.bench m.unit) m.rv m.min m.mean m.max
      if v == "ok" then none else some s!"{i}:{v}"
    bad.headD "ok"

/-! ### tables -/

structure ImplCell where
  unit : Str
  nvals : Nat
  rv : List Bits
  min : Bits
  mean : Bits
  max : Bits
  text : Bytes := []          -- Metrics.Format(row.Scaler), the cell of the text table

structure ImplRow where
  bench : Str
  group : Str
  cells : List ImplCell
  pd : Bits
  delta : String
  note : String
  change : Int

structure ImplTable where
  unit : Str
  metric : Str
  ond : Bool
  rows : List ImplRow

structure Settings where
  alpha : Bits
  order : Option Order
  geo : Bool
  T : TestFn
  nconf : Nat := 0
  test : String := "c"        -- "-" / "u" (UTest), "t" (TTest), "n" (NoDeltaTest), "c" (a custom DeltaTest)

/-- documented metric names -/
def metricName (unit : Str) : Str :=
  let table : List (String × String) := [("ns/op", "time/op"), ("ns/GC", "time/GC"), ("B/op", "alloc/op"), ("MB/s", "speed")]
  match table.find? (fun (u, _) => unit == str u) with
  | some (_, m) => str m
  | none =>
    match table.find? (fun (u, _) => hasSuffix unit (str ("-" ++ u))) with
    | some (u, m) => unit.take (unit.length - (str u).length) ++ str m
    | none => unit

def implLess (o : Order) (a b : ImplRow) : Bool :=
  match o with
  | .byName => bytesLt a.bench b.bench
  | .byDelta => lt (mul (abs a.pd) (ofInt a.change)) (mul (abs b.pd) (ofInt b.change))
  | .reverse o => implLess o b a

/-- is `out` (with original positions `idx`) the stable sort of the input under `less`?
sorted: no later element is less than an earlier one; stable: equivalent elements keep their
original relative order. -/
def isStableSorted {α : Type} (less : α → α → Bool) (out : List (α × Nat)) : Bool :=
  let rec go : List (α × Nat) → Bool
    | [] => true
    | (a, ia) :: rest =>
      rest.all (fun (b, ib) => !less b a && (less a b || ia < ib)) && go rest
  go out

def geoApprox (means : List Bits) : Option Float :=
  if means.any (fun m => isNaN m || le m posZero) then none
  else
    let logs := means.map fun m => Float.log (Float.ofBits m)
    some (Float.exp (logs.foldl (· + ·) 0 / means.length.toFloat))

/-! ### rendered numbers denote the statistics -/

def hasBase (s unit : Str) : Bool := s == unit || hasSuffix s (str "-" ++ unit)

def pow10 (e : Int) : Rat := if e ≥ 0 then ((10 ^ e.toNat : Nat) : Rat) else mkRat 1 (10 ^ (-e).toNat)

def numValue (n : DecText.Num) : Rat := (if n.neg then -1 else 1) * ((n.mant : Nat) : Rat) * pow10 n.exp

/-- the factor a unit suffix of the text table stands for, relative to the unit of the metric -/
def suffixFactor (unit : Str) (suffix : String) : Option Rat :=
  if hasBase unit (str "ns/op") || hasBase unit (str "ns/GC") then
    match suffix with
    | "s" => some 1000000000 | "ms" => some 1000000 | "µs" => some 1000 | "ns" => some 1 | _ => none
  else
    let mbs := hasBase unit (str "MB/s")
    let tail := (if hasBase unit (str "B/op") || hasBase unit (str "bytes/op") || hasBase unit (str "bytes") then "B" else "")
      ++ (if mbs then "B/s" else "")
    let pre := (suffix.toList.take (suffix.length - tail.length))
    if String.ofList (suffix.toList.drop (suffix.length - tail.length)) != tail then none
    else
      let f : Option Rat := match String.ofList pre with
        | "T" => some 1000000000000 | "G" => some 1000000000 | "M" => some 1000000 | "k" => some 1000 | "" => some 1
        | _ => none
      f.map fun x => if mbs then x / 1000000 else x

/-- the `±d%` part of a cell (Metrics.FormatDiff): absent iff Mean = 0 or Max = 0, otherwise the larger of
`1 − Min/Mean` and `Max/Mean − 1` in percent, rounded to an integer (judged for finite Min, Mean, Max) -/
def judgeCellDiff (c : ImplCell) (rest : String) : Bool :=
  if !(isFinite c.min && isFinite c.mean && isFinite c.max) then true
  else
    let body := String.ofList ((rest.toList.dropWhile (· == ' ')))
    if eq c.mean posZero || eq c.max posZero then body == ""
    else
      match body.toList with
      | '±' :: r =>
        let t := (r.dropWhile (· == ' '))
        if t.getLast? != some '%' then false
        else match DecText.parse (String.ofList t.dropLast) with
          | some n =>
            let mean := toRat c.mean
            let lo := 1 - toRat c.min / mean
            let hi := toRat c.max / mean - 1
            let d := (if hi > lo then hi else lo) * 100
            rabs (numValue n - d) ≤ mkRat 1 2 + mkRat 1 1000000 + rabs d * mkRat 1 1000000000
          | none => false
      | _ => false

/-- the cell `Metrics.Format(scaler)` of a present metric: `<number><suffix>` (then ` ±d%` or blanks) must
denote the Mean: the number, times the factor of its suffix, is the Mean rounded to the printed
precision, and — for the cell the row's scaler was made from (`strict`, the first present one) and
|Mean| ≥ 1 in the scaler's base unit — within 0.6 % of it (three significant digits). -/
def judgeCellText (unit : Str) (strict : Bool) (c : ImplCell) : Bool :=
  if c.unit.isEmpty then c.text.isEmpty
  else
    let s := (String.fromUTF8? (ByteArray.mk c.text.toArray)).getD "?"
    let word := String.ofList (s.toList.takeWhile (· != ' '))
    if !judgeCellDiff c (String.ofList (s.toList.drop word.length)) then false
    else if !isFinite c.mean then
      (if isNaN c.mean then word.startsWith "NaN" else if signBit c.mean then word.startsWith "-Inf" else word.startsWith "+Inf")
    else
      let numChars := word.toList.takeWhile fun ch => ch.isDigit || ch == '.' || ch == '-' || ch == '+'
      let suffix := String.ofList (word.toList.drop numChars.length)
      match DecText.parse (String.ofList numChars), suffixFactor unit suffix with
      | some n, some f =>
        let mean := toRat c.mean
        let shown := numValue n * f
        let ulp := pow10 n.exp * f
        let base := if hasBase unit (str "MB/s") then rabs mean * 1000000 else rabs mean
        rabs (shown - mean) ≤ ulp * (mkRat 1 2 + mkRat 1 1000000) + rabs mean * mkRat 1 1000000000000
          && (!strict || base < 1 || rabs (shown - mean) ≤ rabs mean * mkRat 6 1000)
      | _, _ => false

/-- FormatCSV(norange): every data line carries, per configuration, the Mean as `%.5E` (within 5.1·10^-6
relative) for a present metric and an empty field for a missing one. Lines with quoted fields are skipped. -/
def splitOn (sep : UInt8) (b : Bytes) : List Bytes :=
  let (cur, acc) := b.foldl (fun (p : Bytes × List Bytes) c => if c == sep then ([], p.2 ++ [p.1]) else (p.1 ++ [c], p.2)) ([], [])
  acc ++ [cur]

def judgeCSVLine (nconf : Nat) (line : Bytes) (cells : List ImplCell) : Bool :=
  if line.any (· == 0x22) then true else
  let fields := splitOn 0x2C line
  ((List.range nconf).zip cells).all fun (i, c) =>
    let f := fields.getD (1 + i) []
    if c.unit.isEmpty then f.isEmpty
    else
      let s := (String.fromUTF8? (ByteArray.mk f.toArray)).getD "?"
      if !isFinite c.mean then (s == "NaN" || s == "+Inf" || s == "-Inf")
      else match DecText.parse s with
        | some n => rabs (numValue n - toRat c.mean) ≤ rabs (toRat c.mean) * mkRat 51 10000000
        | none => false

def judgeRow (st : Settings) (unit : Str) (r : ImplRow) : String :=
  match r.cells with
  | [old, new] =>
    let t := st.T old.rv new.rv
    -- the built-in tests have documented reasons only: "all equal", "too few samples", "zero variance"
    -- (DeltaTest doc, delta.go); and the sample-size rule is part of the specification:
    -- TTest needs two retained values on each side, UTest one
    let builtin := st.test == "-" || st.test == "u" || st.test == "t" || st.test == "n"
    let tooFew := (st.test == "t" && (old.rv.length ≤ 1 || new.rv.length ≤ 1)) ||
                  ((st.test == "-" || st.test == "u") && (old.rv.length == 0 || new.rv.length == 0))
    let undocumented := builtin && (match t with | .errOther _ => true | _ => false)
    let t := if tooFew then TestRes.errSampleSize else t
    let alpha := if eq st.alpha posZero then c0_05 else st.alpha
    let sh := shown t alpha
    if sh != (r.delta != "~") then "gate"
    else if undocumented && !tooFew then "note-undocumented-reason"
    else if r.note != noteOf t old.rv.length new.rv.length then "note"
    else if !sh then (if r.change != 0 || !(eq r.pd posZero) then "change-without-delta" else "ok")
    else if eq new.mean old.mean then (if r.delta == "0.00%" && r.change == 0 then "ok" else "equal-means")
    else
      let pct := deltaValue old.mean new.mean
      if canonNaN r.pd != canonNaN pct then "delta-value"
      else if r.delta != fmtF true pct 2 ++ "%" then "delta-text"
      else if lt pct posZero then (if r.change == (if higherIsBetter unit then -1 else 1) then "ok" else "direction")
      else if lt posZero pct then (if r.change == (if higherIsBetter unit then 1 else -1) then "ok" else "direction")
      else (if r.change == 1 || r.change == -1 then "ok" else "direction")
  | _ => "cells"

def judgeTable (st : Settings) (inp : Input) (ims : List ImplMetric) (it : ImplTable) : String :=
  let u := it.unit
  let nconf := inp.configs.length
  let ond := nconf == 2
  let groups := inp.groups
  let has (cfg g b : Str) : Bool := !(inp.valuesOf cfg g b u).isEmpty
  let expected : List (Str × Str) := groups.flatMap fun g => (inp.benches g).filterMap fun b =>
    if ond then (if has (inp.configs.getD 0 []) g b && has (inp.configs.getD 1 []) g b then some (g, b) else none)
    else some (g, b)
  if it.metric != metricName u then "metric"
  else if it.ond != ond then "old-new-delta-flag"
  else
    -- geomean row expected?
    let meansOf (cfg : Str) : List Bits := groups.flatMap fun g => (inp.benches g).filterMap fun b =>
      match ims.find? (fun m => m.cfg == cfg && m.group == g && m.bench == b && m.unit == u) with
      | some m => if eq m.mean posZero then none else some m.mean
      | none => none
    let counts := inp.configs.map fun c => (meansOf c).length
    let geoExpected := st.geo && counts.any (· > 1)
    let (dataRows, geoRow) : List ImplRow × Option ImplRow :=
      if geoExpected then (it.rows.dropLast, it.rows.getLast?) else (it.rows, none)
    if dataRows.any (fun r => r.bench == geoRowName) then "unexpected-geomean-row"
    else
      let keyOf (r : ImplRow) : Option Nat :=
        -- position of the row in first-appearance order; the group column is blank with a single group
        (expected.zipIdx).findSome? fun ((g, b), i) =>
          if b == r.bench && (if groups.length > 1 then g == r.group else r.group.isEmpty) then some i else none
      let idx := dataRows.map keyOf
      if idx.any Option.isNone then "row-not-expected"
      else
        let idx := idx.map (·.getD 0)
        if idx.length != expected.length || !(List.range expected.length).all (idx.contains ·) then "rows"
        else
          let orderOk := match st.order with
            | none => idx == List.range expected.length
            | some o =>
              if dataRows.any (fun r => isNaN (mul (abs r.pd) (ofInt r.change))) then true
              else isStableSorted (implLess o) (dataRows.zip idx)
          if !orderOk then "order"
          else
            let cellsBad := dataRows.filterMap fun r =>
              let (g, b) := expected.getD ((keyOf r).getD 0) ([], [])
              if r.cells.length != nconf then some "cell-count"
              else if ((r.cells.zip inp.configs).any fun (c, cfg) =>
                  let vs := inp.valuesOf cfg g b u
                  if vs.isEmpty then !c.unit.isEmpty else (c.unit != u || c.nvals != vs.length)) then some "cell-presence"
              else if ((r.cells.zipIdx).any fun (c, i) =>
                  !judgeCellText u (some i == r.cells.findIdx? (fun c => !c.unit.isEmpty)) c) then some "cell-text"
              else if ond then (let v := judgeRow st u r; if v == "ok" then none else some v)
              else none
            match cellsBad.head? with
            | some v => v
            | none =>
              match geoRow with
              | none => "ok"
              | some gr =>
                if gr.bench != geoRowName then "geomean-missing"
                else if gr.cells.length != nconf then "geomean-cells"
                else
                  let bad := ((gr.cells.zip inp.configs).zipIdx).any fun ((c, cfg), _) =>
                    let ms := meansOf cfg
                    if ms.isEmpty then !c.unit.isEmpty
                    else if ms.any (fun m => !isFinite m || expField m == 0) then false   -- non-finite means: correspondence only;
                      -- subnormal means: Go's amd64 assembly math.Log is inaccurate there (stdlib, see notes/C17.md)
                    else match geoApprox ms with
                      | none => !isNaN c.mean
                      | some g =>
                        let x := Float.ofBits c.mean
                        !(Float.abs (x - g) ≤ 1e-9 * Float.abs g)
                  if bad then "geomean-value"
                  -- the geomean row is rendered like every other row: scaled number with the unit's suffix
                  else if ((gr.cells.zipIdx).any fun (c, i) =>
                      !judgeCellText u (some i == gr.cells.findIdx? (fun c => !c.unit.isEmpty)) c) then "geomean-text"
                  else if ond && counts.all (· > 0) then
                    (match gr.cells with
                     | [a, b] =>
                       if gr.delta != fmtF true (deltaValue a.mean b.mean) 2 ++ "%" then "geomean-delta"
                       else if canonNaN gr.pd != canonNaN (deltaValue a.mean b.mean) then "geomean-delta-value"
                       else "ok"
                     | _ => "geomean-cells")
                  else (if gr.delta == "" && eq gr.pd posZero then "ok" else "geomean-delta")

def judgeTables (its : List ImplTable) (ims : List ImplMetric) (inp : Input) (st : Settings) : String :=
  let nconf := inp.configs.length
  let ond := nconf == 2
  let expectedUnits := inp.units.filter fun u =>
    if ond then inp.groups.any fun g => (inp.benches g).any fun b =>
      !(inp.valuesOf (inp.configs.getD 0 []) g b u).isEmpty && !(inp.valuesOf (inp.configs.getD 1 []) g b u).isEmpty
    else true
  if its.map (·.unit) != expectedUnits then "tables"
  else
    let bad := (its.zipIdx).filterMap fun (t, i) =>
      let v := judgeTable st inp ims t
      if v == "ok" then none else some s!"{i}:{v}"
    bad.headD "ok"

/-- walk the lines of FormatCSV(norange) along the tables' rows (header, group header rows, data rows) -/
def judgeCSV (csv : Bytes) (its : List ImplTable) (nconf : Nat) : String :=
  let lines := splitOn 0x0A csv
  -- expected line kinds in order: none = a line we do not judge, some cells = data line
  let plan : List (Option (List ImplCell)) := ((its.zipIdx).flatMap fun (t, ti) =>
    (if ti > 0 then [none] else []) ++ [none] ++
    (t.rows.foldl (fun (acc : List (Option (List ImplCell)) × Str) r =>
      let acc := if r.group != acc.2 then (acc.1 ++ [none], r.group) else acc
      (acc.1 ++ [some r.cells], acc.2)) ([], [])).1)
  if lines.length < plan.length then "csv-shape"
  else if ((plan.zip lines).any fun (p, l) => match p with
      | none => false
      | some cells => !judgeCSVLine nconf l cells) then "csv-mean"
  else "ok"

end Spec.Legacy
