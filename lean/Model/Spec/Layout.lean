/-
C16 — specification-level geometric oracle for a laid-out text table.

Given the TEXT an implementation printed, the list of cells that were put into the table and a
candidate vector of column offsets (a witness; the driver supplies the model's), decide whether
the text is a loss-free fixed-width layout of the cells:

  * every printed cell's field starts at the offset of its column: margin (right-justified in
    the column's margin width), then the value, un-truncated, inside [offs[col], offs[col+span]);
    left-aligned values start right after the margin, right-aligned values end exactly at
    offs[col+span], centred values sit ⌊slack/2⌋ in;
  * cells do not overlap and everything between cells is blank;
  * a line ends with its last cell (no trailing blanks unless they are the cell's own content).

Nothing here refers to the width computation. Positions are counted in runes (decodeRune chunks).
-/
import Model.Base.Utf8
import Model.Tab.TextTab

namespace Spec.Layout
open Tab.TextTab (Cell Align)

def chunksAux : Nat → Bytes → List Bytes
  | 0, _ => []
  | _ + 1, [] => []
  | fuel + 1, b :: bs =>
    let n := max 1 (Utf8.decodeRune (b :: bs)).2
    (b :: bs).take n :: chunksAux fuel ((b :: bs).drop n)

/-- the string cut into runes (invalid bytes are runes of width 1, as in Go) -/
def chunks (b : Bytes) : List Bytes := chunksAux b.length b

def isSpaceChunk (c : Bytes) : Bool := Utf8.isSpace (Utf8.decodeRune c).1
def blank (b : Bytes) : Bool := (chunks b).all isSpaceChunk

/-- a string that cannot fuse with what follows it (does not end in an incomplete UTF-8
sequence); layout by rune counts is only meaningful for such strings -/
def selfDelimited (b : Bytes) : Bool :=
  (chunks (b ++ [0x80, 0x80, 0x80])).length == (chunks b).length + 3

def splitLines (b : Bytes) : List Bytes :=
  let r := b.foldl (fun (acc : List Bytes × Bytes) c =>
    if c == 0x0A then (acc.2.reverse :: acc.1, []) else (acc.1, c :: acc.2)) ([], [])
  -- text after the last newline (must be empty for a well-formed table) is kept as a line
  (if r.2.isEmpty then r.1 else r.2.reverse :: r.1).reverse

def printed (c : Cell) : Bool := !(blank c.value && blank c.margin)

def marginWidth (cells : List Cell) (col : Nat) : Nat :=
  (cells.filter (·.col == col)).foldl (fun m c => max m (chunks c.margin).length) 0

def sp : Bytes := [0x20]

def slice (l : Array Bytes) (a b : Nat) : List Bytes := (l.extract a b).toList

/-- the interval a cell occupies on its line, or a reason why it is not laid out properly -/
def judgeCell (cells : List Cell) (offs : Nat → Nat) (line : Array Bytes) (c : Cell) :
    Except String (Nat × Nat) :=
  let lm := marginWidth cells c.col
  let start := offs c.col
  let mEnd := start + lm
  let fin := offs (c.col + c.span)
  let m := chunks c.margin
  let v := chunks c.value
  let n := v.length
  if slice line start mEnd != List.replicate (lm - m.length) sp ++ m then .error "margin"
  else if mEnd + n > fin then .error "overflow"
  else
    let vStart := match c.align with
      | .left => mEnd
      | .right => fin - n
      | .center => mEnd + (fin - mEnd - n) / 2
    -- an empty value occupies nothing beyond the margin: padding in front of it is not content
    if n == 0 then .ok (start, mEnd)
    else if slice line mEnd vStart != List.replicate (vStart - mEnd) sp then .error "pad"
    else if slice line vStart (vStart + n) != v then .error "value"
    else .ok (start, vStart + n)

/-- everything outside the occupied intervals (sorted by start) is blank, intervals do not
overlap, and the line ends where the last interval ends -/
def judgeLine (line : Array Bytes) : Nat → List (Nat × Nat) → Except String Unit
  | pos, [] => if line.size == pos then .ok () else .error "tail"
  | pos, (a, b) :: rest =>
    if a < pos then .error "overlap"
    else if slice line pos a != List.replicate (a - pos) sp then .error "gap"
    else judgeLine line b rest

def insertIv (x : Nat × Nat) : List (Nat × Nat) → List (Nat × Nat)
  | [] => [x]
  | y :: ys => if x.1 ≤ y.1 then x :: y :: ys else y :: insertIv x ys

/-- does the last printed cell of a line end in blanks of its own? -/
def endsBlank (c : Cell) : Bool :=
  match (chunks c.value).getLast? with
  | some ch => isSpaceChunk ch
  | none => match (chunks c.margin).getLast? with
    | some ch => isSpaceChunk ch
    | none => true

def judgeRow (cells : List Cell) (offs : Nat → Nat) (lines : Array Bytes) (r : Nat) : Except String Unit := do
  let line := (chunks (lines.getD r [])).toArray
  let cs := (cells.filter (fun c => c.row == r && printed c))
  let ivs ← cs.mapM (judgeCell cells offs line)
  judgeLine line 0 (ivs.foldl (fun acc x => insertIv x acc) [])
  -- no trailing blanks
  match line.back? with
  | some ch =>
    if isSpaceChunk ch then
      -- excused only when the blank is the content of the right-most cell itself
      let last := cs.foldl (fun (b : Option Cell) c => match b with
        | none => some c
        | some d => if d.col ≤ c.col then some c else some d) none
      match last with
      | some c => if endsBlank c then .ok () else .error "trailingblank"
      | none => .error "trailingblank"
    else .ok ()
  | none => .ok ()

def showErr (r : Nat) (e : String) : String := s!"fail:{e}:row{r}"

def lastPrinted (cells : List Cell) (r : Nat) : Option Cell :=
  (cells.filter (fun c => c.row == r && printed c)).foldl (fun (b : Option Cell) c => match b with
    | none => some c
    | some d => if d.col ≤ c.col then some c else some d) none

/-- the whole table: verdict and the first offending row -/
def judge (text : Bytes) (cells : List Cell) (offs : Nat → Nat) : String × Option Nat :=
  if !(cells.all fun c => selfDelimited c.value && selfDelimited c.margin) then ("ok", none) -- outside the quantifier
  else
    let lines := (splitLines text).toArray
    let pr := cells.filter printed
    let nrows := pr.foldl (fun m c => max m (c.row + 1)) 0
    -- Go ends the output with one newline when the table has any cell at all
    let wantLines := if cells.isEmpty then 0 else max nrows 1
    if lines.size != wantLines then (s!"fail:lines:{lines.size}", none)
    else if !cells.isEmpty && text.getLast? != some 0x0A then ("fail:nofinalnewline", none)
    else
      match (List.range nrows).findSome? (fun r => match judgeRow cells offs lines r with
        | .ok _ => none
        | .error e => some (showErr r e, r)) with
      | some (e, r) => (e, some r)
      | none => ("ok", none)

end Spec.Layout
