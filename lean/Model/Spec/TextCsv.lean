/-
C16 — specification-level comparison of benchstat's TEXT and CSV renderings of the same Tables.

Both outputs are parsed from scratch (nothing of the renderers' models is used):
  * same table blocks in the same order, same "key: value" lines in front of them;
  * header: every text header cell spans, between the │ rules of the unit line, exactly the
    columns whose CSV header value it shows — compared with `Spec.KeyHeader.specLevel` of the
    CSV's per-column values (every column under exactly one header cell per level);
  * same row labels, same cells present, same ranges, deltas, p-value strings;
  * every scaled number of the text equals the CSV number to the printed precision:
    |mantissa·factor − csv| ≤ ½ unit of the last printed digit·factor + 2⁻⁵²·|csv| (exact rationals);
  * same set of warning messages per table (text: numbered footnotes; CSV: second stream keyed
    by cell reference);
  * layout: no token crosses a column rule, no line ends in a blank.
Contractual presentation differences: the CSV always ends a table with the summary (geomean) row,
the text prints it only for tables with more than one row; CSV warnings go to a second stream.
-/
import Model.Base.Bytes
import Model.Spec.KeyHeader

namespace Spec.TextCsv

/-! ### exact rationals (just enough) -/

structure Q where
  num : Int
  den : Nat   -- > 0
  deriving Repr

def Q.mul (a b : Q) : Q := ⟨a.num * b.num, a.den * b.den⟩
def Q.add (a b : Q) : Q := ⟨a.num * b.den + b.num * a.den, a.den * b.den⟩
def Q.sub (a b : Q) : Q := ⟨a.num * b.den - b.num * a.den, a.den * b.den⟩
def Q.abs (a : Q) : Q := ⟨a.num.natAbs, a.den⟩
def Q.le (a b : Q) : Bool := a.num * b.den ≤ b.num * a.den
def Q.pow10 (e : Int) : Q := if e ≥ 0 then ⟨(10 ^ e.toNat : Nat), 1⟩ else ⟨1, 10 ^ (-e).toNat⟩

def digitsVal (ds : List Char) : Nat := ds.foldl (fun n c => n * 10 + (c.toNat - 48)) 0

/-- `[-+]digits[.digits]` → value and the unit of the last printed digit -/
def parsePlain (cs : List Char) : Option (Q × Q) :=
  let (neg, cs) := match cs with
    | '-' :: r => (true, r)
    | '+' :: r => (false, r)
    | r => (false, r)
  let ip := cs.takeWhile Char.isDigit
  let rest := cs.dropWhile Char.isDigit
  let fp? : Option (List Char) := match rest with
    | [] => some []
    | '.' :: r => if r.all Char.isDigit && !r.isEmpty then some r else none
    | _ => none
  match fp? with
  | none => none
  | some fp =>
    if ip.isEmpty then none else
    let m : Int := digitsVal (ip ++ fp)
    let p := fp.length
    some (⟨if neg then -m else m, 10 ^ p⟩, ⟨1, 10 ^ p⟩)

/-- a float as Go's %v prints it: plain or with e±dd -/
def parseCsvNum (s : String) : Option Q :=
  let cs := s.toList
  let mant := cs.takeWhile (· != 'e')
  let ex := cs.dropWhile (· != 'e')
  match parsePlain mant with
  | none => none
  | some (v, _) =>
    match ex with
    | [] => some v
    | _ :: e =>
      let (neg, ds) := match e with
        | '-' :: r => (true, r)
        | '+' :: r => (false, r)
        | r => (false, r)
      if ds.isEmpty || !ds.all Char.isDigit then none
      else some (v.mul (Q.pow10 (if neg then -(digitsVal ds : Int) else digitsVal ds)))

def prefixes : List (String × Q) :=
  [("Ti", ⟨2 ^ 40, 1⟩), ("Gi", ⟨2 ^ 30, 1⟩), ("Mi", ⟨2 ^ 20, 1⟩), ("Ki", ⟨2 ^ 10, 1⟩),
   ("T", Q.pow10 12), ("G", Q.pow10 9), ("M", Q.pow10 6), ("k", Q.pow10 3),
   ("m", Q.pow10 (-3)), ("µ", Q.pow10 (-6)), ("n", Q.pow10 (-9)), ("", ⟨1, 1⟩)]

/-- scaled number of the text: (value, half a unit of the last printed digit), both unscaled -/
def parseTextNum (s : String) : Option (Q × Q) :=
  prefixes.findSome? fun (p, f) =>
    if s.endsWith p then
      match parsePlain ((s.toList.take (s.length - p.length))) with
      | some (v, u) => some (v.mul f, (u.mul f).mul ⟨1, 2⟩)
      | none => none
    else none

/-- does the text number agree with the CSV number to the printed precision? -/
def numAgree (text csv : String) : Bool :=
  match parseTextNum text, parseCsvNum csv with
  | some (t, h), some c =>
    -- … and without loss: a non-zero measurement is never printed as zero (the row scale is chosen
    -- from the smallest non-zero magnitude, so every non-zero value keeps significant digits)
    ((t.sub c).abs).le (h.add (c.abs.mul ⟨1, 2 ^ 52⟩)) && (c.num == 0 || t.num != 0)
  | _, _ => text == csv   -- +Inf, NaN: literal agreement

/-! ### CSV -/

/-- records of an encoding/csv stream (quotes handled); an empty line is the record `[""]` -/
def parseCsv (s : String) : List (List String) :=
  let step := fun (st : List (List String) × List String × List Char × Bool × Bool) (c : Char) =>
    let (recs, fields, cur, inq, pendq) := st
    if inq then
      if c == '"' then (recs, fields, cur, false, true) else (recs, fields, c :: cur, true, false)
    else if c == '"' then
      if pendq then (recs, fields, '"' :: cur, true, false) else (recs, fields, cur, true, false)
    else if c == ',' then (recs, String.ofList cur.reverse :: fields, [], false, false)
    else if c == '\n' then ((String.ofList cur.reverse :: fields).reverse :: recs, [], [], false, false)
    else (recs, fields, c :: cur, false, false)
  let (recs, _, _, _, _) := s.toList.foldl step ([], [], [], false, false)
  recs.reverse

/-! ### splitting into table blocks -/

def splitBlocks {α : Type} (isBlank : α → Bool) (l : List α) : List (List α) :=
  let r := l.foldl (fun (acc : List (List α) × List α) x =>
    if isBlank x then (acc.2.reverse :: acc.1, []) else (acc.1, x :: acc.2)) ([], [])
  (r.2.reverse :: r.1).reverse

def isSuper (c : Char) : Bool := "⁰¹²³⁴⁵⁶⁷⁸⁹".toList.contains c
def superVal (s : String) : Nat :=
  s.toList.foldl (fun n c => n * 10 + ("⁰¹²³⁴⁵⁶⁷⁸⁹".toList.idxOf c)) 0
def isFootTok (s : String) : Bool := !s.isEmpty && s.toList.all isSuper

def bar : Char := '│'
def barPositions (l : Array Char) : List Nat :=
  (List.range l.size).filter fun i => l[i]! == bar

def trimStr (cs : List Char) : String :=
  String.ofList ((cs.dropWhile (· == ' ')).reverse.dropWhile (· == ' ')).reverse

/-- tokens with their [start, end) positions -/
def tokens (l : Array Char) (a b : Nat) : List (String × Nat × Nat) :=
  let r := (List.range (min b l.size - a)).foldl (fun (acc : List (String × Nat × Nat) × List Char × Nat) k =>
    let i := a + k
    let c := l[i]!
    if c == ' ' then
      (if acc.2.1.isEmpty then acc.1 else (String.ofList acc.2.1.reverse, acc.2.2, i) :: acc.1, [], i + 1)
    else (acc.1, c :: acc.2.1, if acc.2.1.isEmpty then i else acc.2.2)) ([], [], a)
  let fin := if r.2.1.isEmpty then r.1 else (String.ofList r.2.1.reverse, r.2.2, min b l.size) :: r.1
  fin.reverse

def startCol (exp : Nat) : Nat := if exp == 0 then 1 else 3 + (exp - 1) * 4

structure Verdict where
  agree : Option String := none
  hdr : Option String := none
  layout : Option String := none

def Verdict.show (v : Verdict) : String :=
  s!"agree={v.agree.getD "ok"} hdr={v.hdr.getD "ok"} layout={v.layout.getD "ok"}"

def orElse (a : Option String) (b : Option String) : Option String := match a with | some x => some x | none => b

def Verdict.merge (a b : Verdict) : Verdict :=
  { agree := orElse a.agree b.agree, hdr := orElse a.hdr b.hdr, layout := orElse a.layout b.layout }

def failAgree (s : String) : Verdict := { agree := some s }

/-- tokens (with positions) of one column group of a row; `none` if a token crosses the right rule -/
def groupTokensPos (l : Array Char) (u : List Nat) (exp : Nat) : Option (List (String × Nat × Nat)) :=
  let a := u.getD exp 0
  let b := u.getD (exp + 1) 0
  -- a token belongs to the group in which it starts; take everything starting in [a, b)
  let ts := (tokens l a l.size).filter fun t => t.2.1 < b
  if ts.any (fun t => t.2.2 > b) then none else some ts

def groupTokens (l : Array Char) (u : List Nat) (exp : Nat) : Option (List String) :=
  (groupTokensPos l u exp).map fun ts => ts.map (·.1)

/-- one data or summary row. `summary` = the geomean row. -/
def judgeRow (l : Array Char) (u : List Nat) (ncols : Nat) (rcd : List String) (summary : Bool)
    (vs : List (Option Nat) := []) : Verdict × List (Nat × List Nat) := Id.run do
  let mut v : Verdict := {}
  let mut foots : List (Nat × List Nat) := []
  let label := trimStr (l.toList.take (u.headD 0))
  if label != rcd.headD "" then v := v.merge (failAgree s!"label:{label}")
  if (tokens l (u.getLastD 0) l.size).length > 0 then v := v.merge { layout := some "beyondedge" }
  for exp in List.range ncols do
    match groupTokensPos l u exp with
    | none => v := v.merge { layout := some s!"crossrule:{label}:{exp}" }
    | some tsp =>
      let ts := tsp.map (·.1)
      foots := foots ++ [(exp, (ts.filter isFootTok).map superVal)]
      let tsp := tsp.filter (!isFootTok ·.1)
      let ts := ts.filter (!isFootTok ·)
      let c := startCol exp
      let center := rcd.getD c ""
      let range := rcd.getD (c + 1) ""
      let delta := rcd.getD (c + 2) ""
      let pstr := rcd.getD (c + 3) ""
      if summary then
        -- positional: what stands left of the "vs base" header is the centre, the rest the delta
        let (cts, dts) : List (String × Nat × Nat) × List (String × Nat × Nat) := match vs.getD exp none with
          | some p => (tsp.filter (fun (t : String × Nat × Nat) => t.2.1 + 2 < p),
                       tsp.filter (fun (t : String × Nat × Nat) => !(t.2.1 + 2 < p)))
          | none => (tsp, [])
        if center == "" && !cts.isEmpty then v := v.merge (failAgree s!"sumcentre:{exp}:extra")
        if center != "" && (cts.length != 1 || !numAgree ((cts.map (·.1)).getD 0 "") center) then
          v := v.merge (failAgree s!"sumnum:{exp}:{(cts.map (·.1)).getD 0 ""}:{center}")
        if (exp == 0 || delta == "") && !dts.isEmpty then v := v.merge (failAgree s!"sumdelta:{exp}:extra")
        if exp > 0 && delta != "" && dts.map (·.1) != [delta] then v := v.merge (failAgree s!"sumdelta:{exp}")
        if range != "" || pstr != "" then v := v.merge (failAgree s!"sumpos:{exp}")
      else if center == "" then
        if !ts.isEmpty then v := v.merge (failAgree s!"extracell:{label}:{exp}")
      else
        let hasDelta := exp > 0 && delta != ""
        if ts.length < 3 || ts.getD 1 "" != "±" then v := v.merge (failAgree s!"cellshape:{label}:{exp}")
        else
          if !numAgree (ts.getD 0 "") center then
            v := v.merge (failAgree s!"num:{label}:{exp}:{ts.getD 0 ""}:{center}")
          if ts.getD 2 "" != range then v := v.merge (failAgree s!"range:{label}:{exp}")
          if hasDelta then
            if ts.getD 3 "" != delta then v := v.merge (failAgree s!"delta:{label}:{exp}")
            if " ".intercalate (ts.drop 4) != "(" ++ pstr ++ ")" then v := v.merge (failAgree s!"p:{label}:{exp}")
          else if ts.length != 3 then v := v.merge (failAgree s!"extradelta:{label}:{exp}")
  return (v, foots)

def bytesOf (s : String) : Bytes := s.toUTF8.toList

def dedup (l : List String) : List String := l.foldl (fun acc x => if acc.contains x then acc else acc ++ [x]) []
def sameSet (a b : List String) : Bool := a.all b.contains && b.all a.contains

/-- one table block: text lines, CSV records with their global row numbers, all CSV warnings -/
def judgeBlock (tl : List String) (cr : List (Nat × List String)) (warns : List (Nat × Nat × String)) : Verdict := Id.run do
  let mut v : Verdict := {}
  -- "key: value" lines in front of the table
  let thdr := tl.takeWhile fun s => !s.toList.contains bar
  let tl := tl.dropWhile fun s => !s.toList.contains bar
  -- no line of the laid-out table (header, rows, footnotes) ends in a blank; the "key: value" lines
  -- in front of it are compared with the CSV's verbatim (an empty value leaves "key: " in both)
  if tl.any (fun s => s.toList.getLast? == some ' ') then v := v.merge { layout := some "trailingblank" }
  let chdr := cr.takeWhile fun r => r.2.length == 1
  let cr := cr.dropWhile fun r => r.2.length == 1
  if thdr != chdr.map (fun r => r.2.headD "") then v := v.merge (failAgree "tablekeys")
  -- header lines
  let tbars := tl.takeWhile fun s => s.toList.contains bar
  let tl := tl.dropWhile fun s => s.toList.contains bar
  let chead := cr.takeWhile fun r => r.2.headD "" == "" && r.2.length > 1
  let cr := cr.dropWhile fun r => r.2.headD "" == "" && r.2.length > 1
  if tbars.length != chead.length || tbars.isEmpty then return v.merge { hdr := some "levels" }
  let unitRec := (chead.getLast?.map (·.2)).getD []
  let ncols := (unitRec.filter (· == "CI")).length
  let unitLine := (tbars.getLastD "").toList.toArray
  let u := barPositions unitLine
  if u.length != ncols + 1 then return v.merge { hdr := some s!"unitrules:{u.length}:{ncols}" }
  -- header levels against the specification of a key header over the CSV's column values
  let levels := chead.dropLast.map (·.2)
  let keys : List (List Bytes) := (List.range ncols).map fun exp => levels.map fun r => bytesOf (r.getD (startCol exp) "")
  for k in List.range levels.length do
    let line := (tbars.getD k "").toList.toArray
    let b := barPositions line
    let cells := (b.zip (b.drop 1)).map fun (x, y) =>
      (bytesOf (trimStr ((line.extract (x + 1) y).toList)), u.idxOf x, u.idxOf y - u.idxOf x)
    if !b.all u.contains || b.head? != u.head? || b.getLast? != u.getLast? then
      v := v.merge { hdr := some s!"rules:level{k}" }
    else if cells != Spec.KeyHeader.specLevel keys k then v := v.merge { hdr := some s!"cells:level{k}" }
  -- unit line
  for exp in List.range ncols do
    match groupTokens unitLine u exp with
    | none => v := v.merge { layout := some "unitcross" }
    | some ts =>
      let ts := ts.filter (· != "│")
      let want := ([unitRec.getD (startCol exp) ""] ++ (if exp > 0 then ["vs", "base"] else [])).filter (· != "")
      if ts != want then v := v.merge (failAgree s!"unit:{exp}")
  -- rows
  let trows := tl.takeWhile fun s => !(s.toList.headD ' ' |> isSuper)
  let tfoot := tl.dropWhile fun s => !(s.toList.headD ' ' |> isSuper)
  let crows := cr.dropLast
  let csum := (cr.getLast?.map (·.2)).getD []
  let wantSummary := crows.length > 1
  if trows.length != crows.length + (if wantSummary then 1 else 0) then
    return v.merge (failAgree s!"rows:{trows.length}:{crows.length}")
  let mut foots : List Nat := []
  -- per cell: (CSV row number, logical column, footnote numbers of the text)
  let mut cellFoots : List (Nat × Nat × List Nat) := []
  for (t, c) in trows.zip crows do
    let (v', f) := judgeRow t.toList.toArray u ncols c.2 false
    v := v.merge v'; foots := foots ++ (f.map (·.2)).flatten
    cellFoots := cellFoots ++ f.map fun (e, ns) => (c.1, e, ns)
  -- the CSV summary row against the header positions alone (also for one-row tables, where the
  -- text has no geomean row): values only under a centre header or under "vs base"
  for j in List.range csum.length do
    if j > 0 && csum.getD j "" != "" then
      let h := unitRec.getD j ""
      let isCentre := (List.range ncols).any fun exp => startCol exp == j
      let isDelta := (List.range ncols).any fun exp => exp > 0 && startCol exp + 2 == j
      if !(isCentre || isDelta) || (isDelta && h != "vs base") then v := v.merge (failAgree s!"sumpos:field{j}:{h}")
  if csum.length > unitRec.length then v := v.merge (failAgree "sumpos:long")
  if wantSummary then
    let vs : List (Option Nat) := (List.range ncols).map fun exp =>
      match groupTokensPos unitLine u exp with
      | some ts => (ts.find? (·.1 == "vs")).map (·.2.1)
      | none => none
    let (v', f) := judgeRow (trows.getLastD "").toList.toArray u ncols csum true vs
    v := v.merge v'; foots := foots ++ (f.map (·.2)).flatten
    cellFoots := cellFoots ++ f.map fun (e, ns) => ((cr.getLast?.map (·.1)).getD 0, e, ns)
  -- warnings: footnotes of the text against the CSV's second stream, as sets of messages
  let defs := tfoot.map fun s =>
    let n := s.toList.takeWhile isSuper
    (superVal (String.ofList n), String.ofList ((s.toList.dropWhile isSuper).drop 1))
  let tmsgs := dedup (defs.map (·.2))
  -- the footnotes are numbered 1, 2, 3, … in the order they are listed, each message once
  if defs.map (·.1) != (List.range defs.length).map (· + 1) then
    v := v.merge (failAgree s!"footnoteseq:{defs.length}")
  if tmsgs.length != defs.length then v := v.merge (failAgree "footnotedup")
  if !(foots.all fun n => defs.any (·.1 == n)) || !(defs.all fun d => foots.contains d.1) then
    v := v.merge (failAgree "footnoterefs")
  let lo := (chead.headD (0, [])).1
  let hi := (cr.getLast?.map (·.1)).getD 0
  -- the text omits the summary row of a one-row table, and with it that row's warnings
  let hi := if wantSummary then hi else hi - 1
  let cmsgs := dedup ((warns.filter fun w => lo ≤ w.2.1 && w.2.1 ≤ hi).map (·.2.2))
  if !sameSet tmsgs cmsgs then v := v.merge (failAgree s!"warnings:{tmsgs.length}:{cmsgs.length}")
  -- per cell: the footnotes of the text cell of (row, column) are the messages the CSV stream
  -- attaches to the fields of that column group of that row
  for (rn, e, ns) in cellFoots do
    let tm := dedup (ns.filterMap fun n => (defs.find? (·.1 == n)).map (·.2))
    let cm := dedup ((warns.filter fun w => w.2.1 == rn && startCol e ≤ w.1 && w.1 < startCol (e + 1)).map (·.2.2))
    if !sameSet tm cm then v := v.merge (failAgree s!"warncell:row{rn}:col{e}:{tm.length}:{cm.length}")
  -- every reference of the CSV stream names a field under a centre header or under "vs base",
  -- and in a measurement row that field holds the warned value
  let hiAll := (cr.getLast?.map (·.1)).getD 0
  for w in warns do
    if lo ≤ w.2.1 && w.2.1 ≤ hiAll then
      let j := w.1
      let isCentre := (List.range ncols).any fun exp => startCol exp == j
      let isDelta := (List.range ncols).any fun exp => exp > 0 && startCol exp + 2 == j
      if !(isCentre || isDelta) then v := v.merge (failAgree s!"warnref:row{w.2.1}:field{j}:{unitRec.getD j ""}")
      else if w.2.1 != hiAll then
        let rcd := ((cr.find? (·.1 == w.2.1)).map (·.2)).getD []
        if rcd.getD j "" == "" then v := v.merge (failAgree s!"warnref:row{w.2.1}:field{j}:blank")
  return v

/-- `<column letters><row>: <message>` → (0-based field index, row, message); the letters are read
as the code writes them for fields 0..25 (A..Z) and as base-26 digits beyond -/
def parseWarn (s : String) : Option (Nat × Nat × String) :=
  let cs := s.toList
  let letters := cs.takeWhile Char.isAlpha
  let rest := cs.dropWhile Char.isAlpha
  let ds := rest.takeWhile Char.isDigit
  match rest.dropWhile Char.isDigit with
  | ':' :: ' ' :: msg =>
    if letters.isEmpty || ds.isEmpty then none
    else some (letters.foldl (fun x c => x * 26 + (c.toNat - 65)) 0, digitsVal ds, String.ofList msg)
  | _ => none

def judge (text csv warn : String) : Verdict := Id.run do
  let tlines := (text.splitOn "\n")
  let tlines := if tlines.getLast? == some "" then tlines.dropLast else tlines
  let mut v : Verdict := {}
  let recs := parseCsv csv
  let numbered := (List.range recs.length).map (· + 1) |>.zip recs
  let tb := splitBlocks (fun (s : String) => s.isEmpty) tlines
  let cb := splitBlocks (fun (r : Nat × List String) => r.2 == [""]) numbered
  let warns := ((warn.splitOn "\n").filter (· != "")).filterMap parseWarn
  if ((warn.splitOn "\n").filter (· != "")).length != warns.length then v := v.merge (failAgree "warnsyntax")
  if text.isEmpty && csv.isEmpty then return v
  if tb.length != cb.length then return v.merge (failAgree s!"tables:{tb.length}:{cb.length}")
  for (t, c) in tb.zip cb do
    v := v.merge (judgeBlock t c warns)
  return v

end Spec.TextCsv
