/-
Specification for property C06: the boolean meaning ⟦e⟧ res i of a filter expression, by
structural recursion with ordinary ∧ ∨ ¬. Written independently of the mask/short-circuit
evaluator in Model/Proc/FilterEval.lean (it shares only the vocabulary: trees, results, the
regexp oracle and the C05 key extractor).
-/
import Model.Proc.FilterEval

namespace Spec.FilterSem
open Proc.FilterEval Proc.Extract

/-- "the key's extracted value equals the literal (or matches the regular expression)" -/
def valueHolds (re : ReOracle) (mt : Matcher) (v : Bytes) : Bool :=
  match mt with
  | .lit s => decide (v = s)
  | .re id => re id v

/-- a term `key:value` at measurement `i`; a `.unit` term is judged against measurement i's
base unit or its written unit (if it was rescaled) -/
def termHolds (re : ReOracle) (res : Res) (i : Nat) (key : Bytes) (mt : Matcher) : Bool :=
  if key = dotUnit then
    match res.values[i]? with
    | some v => valueHolds re mt v.unit || (decide (v.origUnit ≠ []) && valueHolds re mt v.origUnit)
    | none => false
  else valueHolds re mt (keyValue key res)

mutual
/-- ⟦e⟧ res i -/
def denote (re : ReOracle) (res : Res) (i : Nat) : Filter → Bool
  | .and es => denoteAll re res i es
  | .or es => denoteAny re res i es
  | .not e => !denote re res i e
  | .mtch key _ mt => termHolds re res i key mt
def denoteAll (re : ReOracle) (res : Res) (i : Nat) : List Filter → Bool
  | [] => true
  | e :: es => denote re res i e && denoteAll re res i es
def denoteAny (re : ReOracle) (res : Res) (i : Nat) : List Filter → Bool
  | [] => false
  | e :: es => denote re res i e || denoteAny re res i es
end

/-- the measurements (by position) a predicate keeps, in their original order -/
def keepIdx (p : Nat → Bool) (vs : List Value) : List Value :=
  (vs.zipIdx.filter fun vi => p vi.2).map (·.1)

/-- what `Apply` must leave in the result -/
def kept (re : ReOracle) (e : Filter) (res : Res) : List Value :=
  keepIdx (fun i => denote re res i e) res.values

/-- a fixed value list keeps a result iff its projected value is in the list -/
def inFixed (excl : List Bytes) (f : ProjField) (res : Res) : Bool :=
  match f.fixed with
  | none => true
  | some l => decide (projValue excl f.key res ∈ l)

end Spec.FilterSem
