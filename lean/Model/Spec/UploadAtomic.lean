/-
C20 — specification-level oracle (S layer). Short and independent of the algorithmic model
(`Model/Storage/Upload.lean`); it only shares the *input* types (Part, Req, Env).

For one request it answers, from the request alone:
  * must the upload fail?  (a fault is present: cut body, part reader error, unknown field, no file,
    a file without benchmark line, a label that collides with the name label, or the injected
    file-store fault lies within the calls a fault-free run makes)
  * what must be visible afterwards: nothing of a failed upload; for a successful one the number of
    benchmark lines, and per file `header ++ blank ++ content` under `uploads/ID/<part>.txt`.
-/
import Model.Storage.Upload

namespace Spec.UploadAtomic
open Storage.Upload (Part Req Env Fault)

def isWs (c : UInt8) : Bool := c == 32 || c == 9 || c == 10 || c == 11 || c == 12 || c == 13

def splitOnNl : Bytes → Bytes → List Bytes
  | [], acc => if acc.isEmpty then [] else [acc.reverse]
  | c :: r, acc => if c == 10 then acc.reverse :: splitOnNl r [] else splitOnNl r (c :: acc)

def lines (b : Bytes) : List Bytes := splitOnNl b []

/-- a benchmark line: a word starting with "Benchmark" followed by white space -/
def isBenchLine (l : Bytes) : Bool :=
  let l := if l.getLast? == some 13 then l.dropLast else l
  l.any isWs && Bytes.hasPrefix l (Bytes.ofString "Benchmark") &&
    ((l.takeWhile (fun c => !isWs c)).length ≥ 9)

def benchCount (content : Bytes) : Nat := ((lines content).filter isBenchLine).length

/-- some benchmark line is preceded by a `name: v` configuration line (v not blank) -/
def nameClash (content : Bytes) : Bool :=
  let rec go : List Bytes → Bool → Bool
    | [], _ => false
    | l :: rest, seen =>
      if isBenchLine l then seen || go rest seen
      else if Bytes.hasPrefix l (Bytes.ofString "name: ") && (l.drop 6).any (fun c => !isWs c) then go rest true
      else if l == Bytes.ofString "name:" then go rest false
      else go rest seen
  go (lines content) false

def nkeys (env : Env) (fname : Bytes) : Nat :=
  3 + (if fname.isEmpty then 0 else 1) + (if env.user.isEmpty then 0 else 1)

/-- file-store calls of a fault-free run: per file NewWriter, one Write per header key, the
separator, one Write per read, Close -/
def totalOps (env : Env) : List Part → Nat
  | [] => 0
  | Part.field _ :: ps => totalOps env ps
  | Part.file fname _ _ chunks :: ps => 1 + nkeys env fname + 1 + chunks.length + 1 + totalOps env ps

def partFault : Part → Bool
  | Part.field name => name != Bytes.ofString "commit"
  | Part.file _ content cut _ => cut || benchCount content == 0 || nameClash content

def isFile : Part → Bool
  | Part.file .. => true
  | _ => false

def structuralFault (req : Req) : Bool :=
  req.endErr || req.parts.any partFault || !(req.parts.any isFile)

/-- the request gets as far as asking for an upload id: its first part that is not a `commit`
field is a file -/
def reachesAlloc : List Part → Bool
  | [] => false
  | Part.file .. :: _ => true
  | Part.field name :: ps => name == Bytes.ofString "commit" && reachesAlloc ps

/-- id creation must refuse (rather than reuse or go back): the clock shows a day earlier than the
newest id's day although ids of that earlier day exist. `days` = days of the ids given out so far. -/
def clockRefuses (days : List Nat) (day : Nat) : Bool :=
  days.any (fun d => d > day) && days.contains day

def mustFail (env : Env) (req : Req) (cutFlag : Bool) (days : List Nat := []) : Bool :=
  structuralFault req || cutFlag || (reachesAlloc req.parts && clockRefuses days env.day) ||
    (match req.fault with
     | some f => f.k < totalOps env req.parts
     | none => false)

def visible (req : Req) : Nat :=
  (req.parts.map fun p => match p with
    | Part.file _ content _ _ => benchCount content
    | _ => 0).sum

def kv (k : String) (v : Bytes) : Bytes := Bytes.ofString k ++ [58, 32] ++ v ++ [10]

/-- the server's metadata header, keys in sorted order, `ID` for the upload id -/
def header (env : Env) (i : Nat) (fname : Bytes) : Bytes :=
  (if env.user.isEmpty then [] else kv "by" env.user)
  ++ kv "upload" (Bytes.ofString "ID")
  ++ (if fname.isEmpty then [] else kv "upload-file" fname)
  ++ kv "upload-part" (Bytes.ofString s!"ID/{i}")
  ++ kv "upload-time" env.time

/-- (file name, content) of every file a successful upload must leave in the store -/
def storedFiles (env : Env) : List Part → Nat → List (Bytes × Bytes)
  | [], _ => []
  | Part.field _ :: ps, i => storedFiles env ps (i + 1)
  | Part.file fname content _ _ :: ps, i =>
    (Bytes.ofString s!"uploads/ID/{i}.txt", header env i fname ++ [10] ++ content) :: storedFiles env ps (i + 1)

end Spec.UploadAtomic
