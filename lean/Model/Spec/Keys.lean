/-
Specification of projections, key identity and key order (properties C08 and C09), written
independently of the algorithmic model in Model/Proc/Projection.lean and Model/Proc/Sort.lean:
no row buffer, no interning, no field indices, no rank maps. Only the plain data types
(`Res`, `Spec`, `Order`, `NumC`) are shared.

A projection is a list of *columns*; a result (observation) is mapped to a tuple of column values;
keys are the distinct tuples; the order is lexicographic with the documented per-column orders.
Precondition of the specification (the harness marks such cases `s=1`): all expressions are parsed
before the first result is projected, no expression is rejected, fixed lists have no duplicates
and every projected value of a fixed-order column is in its list.
-/
import Model.Spec.Name
import Model.Spec.ParseNum
import Model.Proc.Projection

namespace Spec.Keys
open Proc.Sort (Order)
open Spec.ParseNum (SNum)
open Proc.Projection (Res Spec)

/-- Operations of a scenario on one parser. -/
inductive Op
  | parse (withUnit : Bool) (specs : List Spec)
  | residue
  | proj (values : Bool) (i : Nat) (r : Res)
  | all (r : Res)
  | query          -- observe every projection in its present state (no effect)
  deriving Repr, Inhabited

def sName : Bytes := Bytes.ofString ".name"
def sFullname : Bytes := Bytes.ofString ".fullname"
def sConfig : Bytes := Bytes.ofString ".config"
def sUnit : Bytes := Bytes.ofString ".unit"
def sGomaxprocs : Bytes := Bytes.ofString "/gomaxprocs"

def isGroup (k : Bytes) : Bool := k == sConfig || k == sFullname
def isNameKey (k : Bytes) : Bool := k == sName || k.head? == some 47

/-- A part that makes `Parse` reject the whole expression: an order named `fixed` without a value
list, a fixed order on `.config`, the key `.unit`, an empty key. -/
def rejectedPart (sp : Spec) : Bool :=
  (match sp.order with | .fixed [] => true | _ => false) ||
  (sp.key == sConfig && (match sp.order with | .fixed _ => true | _ => false)) ||
  sp.key == sUnit || sp.key.isEmpty

/-- An expression is accepted (yields a projection) iff none of its parts is rejected. -/
def accepted (specs : List Spec) : Bool := !specs.any rejectedPart

/-- Every specific key named in any ACCEPTED expression of the parser (a rejected `Parse` call yields
no projection and excludes nothing). -/
def specificKeys (ops : List Op) : List Bytes :=
  ops.flatMap fun
    | .parse _ specs => if accepted specs then (specs.map (·.key)).filter (!isGroup ·) else []
    | _ => []

/-- Value of a specific key in a result. -/
def keyVal (k : Bytes) (r : Res) : Bytes :=
  let (b, ps) := Spec.Name.decomp r.name
  if k == sName then b
  else if k == sGomaxprocs then Spec.Name.gomaxprocs ps
  else if k.head? == some 47 then Spec.Name.subname k ps
  else match r.config.find? (·.1 == k) with
    | some c => c.2.1
    | none => []

/-- The name with the parts of the individually projected name keys removed. -/
def restName (specific : List Bytes) (name : Bytes) : Bytes :=
  let (b, ps) := Spec.Name.decomp name
  let subs := specific.filter (·.head? == some 47)
  let kept := ps.filter fun part =>
    !(subs.any fun k => Bytes.hasPrefix part (k ++ [61])) &&
    !(subs.contains sGomaxprocs && Spec.Name.isGmpPart part)
  (if specific.contains sName then [42] else b) ++ kept.flatten

/-- Value of file-configuration key `k` (missing = empty). -/
def fileVal (k : Bytes) (r : Res) : Bytes :=
  match r.config.reverse.find? (fun c => c.2.2 && c.1 == k) with
  | some c => c.2.1
  | none => []

/-- One observation of a projection: a result and, for per-measurement projection, its unit. -/
structure Obs where
  res : Res
  unit : Option Bytes
  /-- false: the result went through the projection's closures (new `.config` keys become fields)
  but no key was made — `ProjectValues` of a result without measurements on a `.unit` projection -/
  interned : Bool := true
  deriving Repr, Inhabited

inductive ColKind
  | key (k : Bytes)
  | fileKey (k : Bytes)
  | fullname
  | unit
  deriving Repr, Inhabited

structure Col where
  name : Bytes
  kind : ColKind
  order : Order
  deriving Repr, Inhabited

def Col.value (specific : List Bytes) (c : Col) (o : Obs) : Bytes :=
  match c.kind with
  | .key k => keyVal k o.res
  | .fileKey k => fileVal k o.res
  | .fullname => restName specific o.res.name
  | .unit => o.unit.getD []

def dedup (l : List Bytes) : List Bytes :=
  l.foldl (fun acc x => if acc.contains x then acc else acc ++ [x]) []

/-- File keys of the observed results in order of first appearance, without the specific keys. -/
def groupKeys (specific : List Bytes) (obs : List Obs) : List Bytes :=
  dedup ((obs.flatMap fun o => (o.res.config.filter (·.2.2)).map (·.1)).filter (!specific.contains ·))

/-- A projection in the specification's view: its expression parts and whether it has `.unit`. -/
structure PSpec where
  parts : List Spec
  unit : Bool
  deriving Repr, Inhabited

/-- The projections of a scenario; `Residue` = the groups not yet projected. -/
def projections (ops : List Op) : List PSpec :=
  let step := fun (st : List PSpec × Bool × Bool) (op : Op) =>
    let (acc, hc, hf) := st
    match op with
    | .parse u specs =>
      if accepted specs then
        (acc ++ [{ parts := specs, unit := u }],
         hc || specs.any (·.key == sConfig), hf || specs.any (·.key == sFullname))
      else st
    | .residue =>
      (acc ++ [{ parts := (if hc then [] else [{ key := sConfig, order := .first }]) ++
                          (if hf then [] else [{ key := sFullname, order := .first }]), unit := false }],
       true, true)
    | _ => st
  (ops.foldl step ([], false, false)).1

/-- The observations made on projection `i`. -/
def observations (ops : List Op) (ps : List PSpec) (i : Nat) : List Obs :=
  let isUnit := (ps[i]?.map (·.unit)).getD false
  let expand := fun (values : Bool) (r : Res) =>
    if values && isUnit then
      (if r.units.isEmpty then [{ res := r, unit := none, interned := false : Obs }]
       else r.units.map fun u => { res := r, unit := some u : Obs })
    else [{ res := r, unit := none : Obs }]
  -- the number of projections that exist when an operation runs
  let step := fun (st : List Obs × Nat) (op : Op) =>
    let (acc, np) := st
    match op with
    | .parse _ specs => (acc, if accepted specs then np + 1 else np)
    | .residue => (acc, np + 1)
    | .proj v j r => (if j == i && i < np then acc ++ expand v r else acc, np)
    | .all r => (if i < np then acc ++ expand isUnit r else acc, np)
    | .query => st
  (ops.foldl step ([], 0)).1

def columns (specific : List Bytes) (p : PSpec) (obs : List Obs) : List Col :=
  (p.parts.flatMap fun sp =>
    if sp.key == sConfig then
      (groupKeys specific obs).map fun k => { name := k, kind := .fileKey k, order := sp.order }
    else if sp.key == sFullname then [{ name := sFullname, kind := .fullname, order := sp.order }]
    else [{ name := sp.key, kind := .key sp.key, order := sp.order }]) ++
  (if p.unit then [{ name := sUnit, kind := .unit, order := .first }] else [])

/-- `Key.String` / `Key.StringValues` as documented: the key:value pairs (or just the values) of the
fields with a non-empty value, in field order, separated by single blanks. -/
def tupleString (withKeys : Bool) (cols : List Col) (t : List Bytes) : Bytes :=
  let pieces := (cols.zip t).filterMap fun (c, v) =>
    if v.isEmpty then none else some (if withKeys then c.name ++ [58] ++ v else v)
  match pieces with
  | [] => []
  | x :: xs => xs.foldl (fun acc y => acc ++ [32] ++ y) x

/-! ### Identity -/

def firstIndex {α : Type} [BEq α] (l : List α) (x : α) : Nat := l.findIdx (· == x)

def dedupTuples (l : List (List Bytes)) : List (List Bytes) :=
  l.foldl (fun acc x => if acc.contains x then acc else acc ++ [x]) []

/-! ### Order -/

def bytesLt : Bytes → Bytes → Bool
  | [], [] => false
  | [], _ :: _ => true
  | _ :: _, [] => false
  | a :: as, b :: bs =>
    if a.toNat < b.toNat then true else if b.toNat < a.toNat then false else bytesLt as bs

/-- The documented rank of a value in a column: observation order / nothing (bytewise) /
numbers by value before NaN before non-numbers (`Spec.ParseNum.rank`) / position in the list.
`num` gives the numeric value of a string: `Spec.ParseNum.parseNum`, reconciled with the float64
the implementation reported where that float is a faithful image of the specified value. -/
def rank (num : Bytes → SNum) (o : Order) (observed : List Bytes) (v : Bytes) : Nat × Rat :=
  match o with
  | .first => (firstIndex observed v, 0)
  | .alpha => (0, 0)
  | .num => Spec.ParseNum.rank (num v)
  | .fixed l => (firstIndex l v, 0)

def rankLt (a b : Nat × Rat) : Bool := a.1 < b.1 || (a.1 == b.1 && a.2 < b.2)

/-- Lexicographic over the columns; values the column order cannot separate fall back to
bytewise order. `cols` carries, per column, its order and the values observed in it. -/
def tupleLess (pn : Bytes → SNum) : List (Order × List Bytes) → List Bytes → List Bytes → Bool
  | (o, observed) :: cs, a :: as, b :: bs =>
    if a == b then tupleLess pn cs as bs
    else
      let ra := rank pn o observed a
      let rb := rank pn o observed b
      if rankLt ra rb then true else if rankLt rb ra then false else bytesLt a b
  | _, _, _ => false

def insertSorted (lt : Nat → Nat → Bool) (x : Nat) : List Nat → List Nat
  | [] => [x]
  | y :: ys => if lt x y then x :: y :: ys else y :: insertSorted lt x ys

def sortIdx (lt : Nat → Nat → Bool) (l : List Nat) : List Nat :=
  l.foldr (insertSorted lt) []

/-! ### Losslessness -/

/-- What the property says two results must share to be indistinguishable by the projections
of a parser plus its residue: every individually projected value, the rest of the file
configuration, the rest of the name. -/
def sameInfo (specific : List Bytes) (r r' : Res) : Bool :=
  let fileKeys := ((r.config ++ r'.config).filter (·.2.2)).map (·.1)
  specific.all (fun k => keyVal k r == keyVal k r') &&
  (fileKeys.filter (!specific.contains ·)).all (fun k => fileVal k r == fileVal k r') &&
  restName specific r.name == restName specific r'.name

end Spec.Keys
