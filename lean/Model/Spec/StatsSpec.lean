/-
C12 — specification-level definitions (exact rational arithmetic, textbook form, independent of
the algorithmic models in Model/Stats) and the tolerance judges used by the driver.

Everything that compares a float64 produced by Go with an exact rational reference does so as
`|go − ref| ≤ k · ulp(scale)`; the constants k are recorded in notes/C12.md together with the
values measured on the generated inputs.
-/
import Model.Stats.Arith

namespace Spec.Stats

/-- exact value of a finite float -/
def toRat (b : F64.Bits) : Rat :=
  let (s, n, d) := F64.toRatParts b
  let q : Rat := mkRat n d
  if s then -q else q

def rabs (q : Rat) : Rat := if q < 0 then -q else q
def rmax (a b : Rat) : Rat := if a < b then b else a

def pow2 (e : Int) : Rat := if e ≥ 0 then ((2 ^ e.toNat : Nat) : Rat) else mkRat 1 (2 ^ (-e).toNat)

/-- ⌊log2 q⌋ for q > 0 -/
def ilog2 (q : Rat) : Int :=
  let l0 : Int := (Nat.log2 q.num.natAbs : Int) - (Nat.log2 q.den : Int)
  if pow2 l0 ≤ q then (if pow2 (l0 + 1) ≤ q then l0 + 1 else l0) else l0 - 1

/-- unit in the last place of a float64 of magnitude q (gradual underflow floor 2^-1074) -/
def ulp (q : Rat) : Rat :=
  let a := rabs q
  if a == 0 then pow2 (-1074)
  else
    let e := ilog2 a - 52
    pow2 (if e < -1074 then -1074 else e)

/-- the nearest float64 of a rational, for messages only -/
def showRat (q : Rat) : String :=
  F64.toHex (if q == 0 then 0 else F64.roundRat (q < 0) q.num.natAbs q.den)

/-- error of `go` against `ref` in units of `unit`, rounded up to a natural number -/
def errUnits (go ref unit : Rat) : Nat :=
  let e := rabs (go - ref) / unit
  (e.ceil).toNat

def judge (go : F64.Bits) (ref tol : Rat) : String :=
  if !F64.isFinite go then s!"nonfinite({F64.toHex go})"
  else if rabs (toRat go - ref) ≤ tol then "ok"
  else s!"bad(go={F64.toHex go},ref~{showRat ref})"

/-! ### textbook definitions -/

def sum (xs : List Rat) : Rat := xs.foldl (· + ·) 0

/-- x̄ = Σx / n -/
def mean (xs : List Rat) : Rat := sum xs / (xs.length : Rat)

/-- s² = Σ(x − x̄)² / (n − 1) -/
def variance (xs : List Rat) : Rat :=
  let m := mean xs
  sum (xs.map fun x => (x - m) * (x - m)) / ((xs.length : Rat) - 1)

def maxAbs (xs : List Rat) : Rat := xs.foldl (fun a x => rmax a (rabs x)) 0

def minOf (xs : List Rat) : Rat := xs.foldl (fun a x => if x < a then x else a) (xs.headD 0)
def maxOf (xs : List Rat) : Rat := xs.foldl (fun a x => if a < x then x else a) (xs.headD 0)

/-- ascending order (Array.qsort; independent of the model's merge sort) -/
def sort (xs : List Rat) : Array Rat := xs.toArray.qsort (· < ·)

/-- Hyndman & Fan type 8 quantile on the ascending array `s`: h = (N + 1/3)p + 1/3,
Q = x_⌊h⌋ + (h − ⌊h⌋)(x_⌊h⌋+1 − x_⌊h⌋) with x_k the k-th smallest value (1-based), clamped to
the extremes. -/
def quantileR8 (s : Array Rat) (p : Rat) : Rat :=
  let N := s.size
  if p ≤ 0 then s[0]!
  else if p ≥ 1 then s[N - 1]!
  else
    let h : Rat := ((N : Rat) + 1 / 3) * p + 1 / 3
    let k := h.floor.toNat
    if k < 1 then s[0]!
    else if k ≥ N then s[N - 1]!
    else s[k - 1]! + (h - (k : Rat)) * (s[k]! - s[k - 1]!)

/-- Accuracy that a float64 evaluation of the quantile can have: the position h is itself a
rounded float64 (three roundings at magnitude ≤ N+1), and an error Δh moves the result by
Δh · (gap between the neighbouring order statistics).  Returns `ulp(h) · gap`, gap being the
largest distance between adjacent order statistics within two places of ⌊h⌋. -/
def positionSlack (s : Array Rat) (p : Rat) : Rat :=
  let N := s.size
  if p ≤ 0 ∨ p ≥ 1 ∨ N < 2 then 0 else
  let h : Rat := ((N : Rat) + 1 / 3) * p + 1 / 3
  let k := h.floor.toNat
  let lo := if k < 3 then 0 else k - 3
  let hi := if k + 2 ≥ N then N - 1 else k + 2
  let gap := (List.range (hi - lo)).foldl (fun g i => rmax g (s[lo + i + 1]! - s[lo + i]!)) 0
  ulp ((N : Rat) + 1) * gap

/-- square root by Newton iteration on rationals: a value r with |r − √q| ≤ 1e-18·max(1,√q);
the iterate is re-rounded to 160 fractional bits to keep the numbers small. -/
def sqrtRat (q : Rat) : Rat :=
  if q ≤ 0 then 0 else
  let e := ilog2 q
  -- start above the root: 2^(⌈e/2⌉+1)
  let x0 : Rat := pow2 ((e + 1) / 2 + 1)
  let prec : Int := 160 - e / 2
  let trunc (r : Rat) : Rat :=
    -- round up to a multiple of 2^-prec (keeps the iterate ≥ √q)
    let sc := pow2 prec
    mkRat ((r * sc).ceil) 1 / sc
  let rec go (fuel : Nat) (x : Rat) : Rat :=
    match fuel with
    | 0 => x
    | fuel + 1 =>
      let x' := trunc ((x + q / x) / 2)
      if x' ≥ x then x else go fuel x'
  go 200 x0

end Spec.Stats
