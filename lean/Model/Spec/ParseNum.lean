/-
Specification of the "num" value of a string (property C09: "numerically with SI and IEC suffixes
understood, numbers before non-numbers and NaN after other numbers"), written independently of
benchproc/sort.go and computed with exact rationals (no float arithmetic):

* a string that is a floating-point literal in the sense of strconv.ParseFloat (decimal or
  hexadecimal Go literal with optional sign/underscores, or an Inf/Infinity/NaN spelling) that is
  in float64 range denotes its exact value;
* otherwise the leftmost match of `([0-9.]+)([kKMGTPEZY]i?)?[bB]?` denotes mantissa × 1000ᵏ
  (or × 1024ᵏ with the `i`), k = 1 + index of the prefix letter in KMGTPEZY (k ≡ K), k = 0 without
  a prefix; a mantissa that is not a literal (two dots, no digit) makes the string a non-number;
* everything else is a non-number.
-/
import Model.Base.Bytes

namespace Spec.ParseNum

inductive SNum
  | err
  | nan
  | ninf
  | pinf
  | fin (q : Rat)
  deriving Repr, Inhabited, DecidableEq

def lower (c : UInt8) : UInt8 := if 65 ≤ c && c ≤ 90 then c + 32 else c

def eqFold (s : Bytes) (lit : String) : Bool := s.map lower == lit.toUTF8.toList

/-- Inf / Infinity (optionally signed) and NaN (unsigned), case-insensitively. -/
def special (s : Bytes) : Option SNum :=
  let (neg, signed, rest) : Bool × Bool × Bytes :=
    match s with
    | 43 :: r => (false, true, r)
    | 45 :: r => (true, true, r)
    | _ => (false, false, s)
  if eqFold rest "inf" || eqFold rest "infinity" then some (if neg then .ninf else .pinf)
  else if !signed && eqFold rest "nan" then some .nan
  else none

def isDec (c : UInt8) : Bool := 48 ≤ c && c ≤ 57
def isHexLetter (c : UInt8) : Bool := 97 ≤ lower c && lower c ≤ 102

def digitVal (c : UInt8) : Nat := if isDec c then c.toNat - 48 else (lower c).toNat - 87

/-- Go's rule for underscores in numeric literals: only between digits (a base prefix counts as a
digit). `saw`: 0 = beginning, 1 = digit, 2 = underscore, 3 = other. -/
def underscoreOKAux (hex : Bool) : Bytes → Nat → Bool
  | [], saw => saw != 2
  | c :: rest, saw =>
    if isDec c || (hex && isHexLetter c) then underscoreOKAux hex rest 1
    else if c == 95 then (if saw != 1 then false else underscoreOKAux hex rest 2)
    else if saw == 2 then false
    else underscoreOKAux hex rest 3

def underscoreOK (s : Bytes) : Bool :=
  let s := match s with
    | 43 :: r => r
    | 45 :: r => r
    | _ => s
  match s with
  | 48 :: c :: rest =>
    if lower c == 98 || lower c == 111 || lower c == 120 then underscoreOKAux (lower c == 120) rest 1
    else underscoreOKAux false s 0
  | _ => underscoreOKAux false s 0

/-- Mantissa scan: returns (integer value of all digits, number of digits after the point,
any digit seen, underscore seen, rest). -/
def scanMant (hex : Bool) : Bytes → (Nat × Nat × Bool × Bool × Bool) → (Nat × Nat × Bool × Bool) × Bytes
  | [], (n, f, _, dig, us) => ((n, f, dig, us), [])
  | c :: rest, (n, f, dot, dig, us) =>
    if c == 95 then scanMant hex rest (n, f, dot, dig, true)
    else if c == 46 then
      if dot then ((n, f, dig, us), c :: rest) else scanMant hex rest (n, f, true, dig, us)
    else if isDec c || (hex && isHexLetter c) then
      scanMant hex rest (n * (if hex then 16 else 10) + digitVal c, if dot then f + 1 else f, dot, true, us)
    else ((n, f, dig, us), c :: rest)

/-- Exponent digits (with underscores): value (capped), underscore seen, rest. -/
def scanExp : Bytes → (Nat × Bool) → (Nat × Bool) × Bytes
  | [], st => (st, [])
  | c :: rest, (e, us) =>
    if c == 95 then scanExp rest (e, true)
    else if isDec c then scanExp rest (if e < 10000 then e * 10 + (c.toNat - 48) else e, us)
    else ((e, us), c :: rest)

def pow (b : Nat) (e : Int) : Rat :=
  if e ≥ 0 then mkRat (b ^ e.toNat) 1 else mkRat 1 (b ^ (-e).toNat)

/-- Largest magnitude that still rounds to a finite float64: below 2^1024 − 2^970. -/
def overflowBound : Rat := mkRat (2 ^ 1024 - 2 ^ 970) 1

/-- A Go floating-point literal occupying the whole string, in float64 range: its exact value. -/
def literal (s : Bytes) : Option SNum :=
  let (neg, body) : Bool × Bytes :=
    match s with
    | 43 :: r => (false, r)
    | 45 :: r => (true, r)
    | _ => (false, s)
  let (hex, digits) : Bool × Bytes :=
    match body with
    | 48 :: x :: c :: rest => if lower x == 120 then (true, c :: rest) else (false, body)
    | _ => (false, body)
  let ((n, f, dig, us1), rest) := scanMant hex digits (0, 0, false, false, false)
  if !dig then none else
  let expChar : UInt8 := if hex then 112 else 101
  let parsedExp : Option (Int × Bool × Bytes) :=
    match rest with
    | c :: r =>
      if lower c == expChar then
        let (esign, r') : Int × Bytes :=
          match r with
          | 43 :: t => (1, t)
          | 45 :: t => (-1, t)
          | _ => (1, r)
        match r' with
        | d :: _ =>
          if isDec d then
            let ((e, us2), rest') := scanExp r' (0, false)
            some (esign * (e : Int), us2, rest')
          else none
        | [] => none
      else if hex then none else some (0, false, rest)
    | [] => if hex then none else some (0, false, [])
  match parsedExp with
  | none => none
  | some (e, us2, rest') =>
    if !rest'.isEmpty then none
    else if (us1 || us2) && !underscoreOK s then none
    else if n == 0 then some (.fin 0)
    else
      -- value = n · base^(−f) · (10^e | 2^e)
      let nd := (Nat.log2 n) / 3 + 1
      let q : Option Rat :=
        if hex then
          let E : Int := e - 4 * (f : Int)
          if E > 1100 then none
          else if E < -(1200 + 4 * (nd : Int)) then some 0
          else some (mkRat n 1 * pow 2 E)
        else
          let E : Int := e - (f : Int)
          if E > 330 then none
          else if E < -(420 + (nd : Int)) then some 0
          else some (mkRat n 1 * pow 10 E)
      match q with
      | none => none
      | some q => if q < overflowBound then some (.fin (if neg then -q else q)) else none

/-- What strconv.ParseFloat accepts without error, with its exact value. -/
def parseFloat (s : Bytes) : Option SNum :=
  match special s with
  | some v => some v
  | none => literal s

def isMantChar (c : UInt8) : Bool := isDec c || c == 46

def prefixLetters : Bytes := "KMGTPEZY".toUTF8.toList

/-- The documented numeric value of a string. -/
def parseNum (s : Bytes) : SNum :=
  match parseFloat s with
  | some v => v
  | none =>
    let tail := s.dropWhile (!isMantChar ·)
    if tail.isEmpty then .err else
    let mant := tail.takeWhile isMantChar
    let rest := tail.dropWhile isMantChar
    match parseFloat mant with
    | some (.fin m) =>
      let (k, iec) : Nat × Bool :=
        match rest with
        | c :: r =>
          let c' : UInt8 := if c == 107 then 75 else c
          if prefixLetters.any (· == c') then (1 + List.idxOf c' prefixLetters, r.head? == some 105) else (0, false)
        | [] => (0, false)
      .fin (m * mkRat ((if iec then 1024 else 1000) ^ k) 1)
    | _ => .err

/-! ### Comparison with a float64 reported by the implementation -/

/-- The value of a float64 bit pattern. -/
def ofBits (bits : Nat) : SNum :=
  let neg := bits ≥ 2 ^ 63
  let ex : Nat := (bits / 2 ^ 52) % 2048
  let frac : Nat := bits % 2 ^ 52
  if ex == 2047 then (if frac == 0 then (if neg then .ninf else .pinf) else .nan)
  else
    let q := if ex == 0 then mkRat frac 1 * pow 2 (-1074)
             else mkRat (2 ^ 52 + frac) 1 * pow 2 ((ex : Int) - 1075)
    .fin (if neg then -q else q)

def absDiff (a b : Rat) : Rat := if a < b then b - a else a - b
def absRat (a : Rat) : Rat := if a < 0 then -a else a

/-- A float computed as round(round(mantissa) × round(multiplier)) is within 2⁻⁵¹ (relative) of the
exact value (absolute 2⁻¹⁰⁷⁴ near zero). -/
def close (f q : Rat) : Bool :=
  let d := absDiff f q
  d ≤ absRat q * pow 2 (-51) || d ≤ pow 2 (-1074)

/-- The value the order is judged by: the implementation's float where it is a faithful float64
image of the specified value, the specified value itself otherwise (second component: agree?). -/
def reconcile (spec impl : SNum) : SNum × Bool :=
  match spec, impl with
  | .fin q, .fin f => if close f q then (.fin f, true) else (.fin q, false)
  | a, b => (a, a == b)

def showSNum : SNum → String
  | .err => "e"
  | .nan => "n"
  | .ninf => "-inf"
  | .pinf => "+inf"
  | .fin q => s!"{q.num}/{q.den}"

/-- Numbers (−Inf, finite by value, +Inf) before NaN before non-numbers. -/
def rank : SNum → Nat × Rat
  | .ninf => (0, 0)
  | .fin q => (1, q)
  | .pinf => (2, 0)
  | .nan => (3, 0)
  | .err => (4, 0)

end Spec.ParseNum
