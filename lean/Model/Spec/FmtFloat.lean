/-
SPECIFICATION of the text `fmt` prints for a float64 under `%v` (= `strconv.AppendFloat(_, v,
'g', -1, 64)` with the sign handling of fmt/format.go `fmtFloat`), as used by the benchmark
writer. Read off strconv/ftoa.go (`%e is used if the exponent from the conversion is less than
-4 or greater than or equal to the precision; if precision was the shortest possible, use
precision 6 for this decision`, `fmtE`, `fmtF`) and fmt/format.go:

  NaN ↦ `NaN`      +Inf ↦ `+Inf`      −Inf ↦ `-Inf`      ±0 ↦ `0` / `-0`
  otherwise: sign `-` if negative, then the SHORTEST decimal digit string d₁…d_n (d₁, d_n ≠ 0)
  and decimal point position dp (value 0.d₁…d_n · 10^dp) that parses back to the same float64;
  among the two n-digit neighbours of the exact value the nearer one is preferred (ties: the
  even one) when both parse back; with X = dp − 1:
    X < −4 or X ≥ 6 :  d₁[.d₂…d_n]e±XX     (exponent at least two digits)
    otherwise        :  dp ≤ 0: 0.0…0d₁…d_n      0 < dp < n: d₁…d_dp.d_dp+1…d_n
                        dp ≥ n: d₁…d_n0…0

"Parses back" is `Spec.NumText.parseFloatSpec` (C03's specification of `strconv.ParseFloat`):
the search below tries n = 1 … 17 and accepts the first candidate text `t` with
`parseFloatSpec t = x` that consists of printable non-blank ASCII only — so
`fmtNumSpec? x = some t` entails, by construction, that `t` is one field and parses to `x`
(`C01.fmtNumSpec_good`). That some n ≤ 17 always works is not proved here; the correspondence
run compares `fmtNumSpec` with Go's `%v` text for every value of every case.

Core Lean only; `Nat`/`Int` arithmetic only (kernel-evaluable).
-/
import Model.Base.F64
import Model.Spec.NumText
import Model.Spec.RoundTrip

namespace Spec.FmtFloat
open Spec.NumText

/-- the threshold of ftoa.go `%g` in shortest mode -/
def eprec : Int := 6

def digitsOf (n : Nat) : Bytes := (Nat.toDigits 10 n).map (fun c => UInt8.ofNat c.toNat)

def zeros (n : Nat) : Bytes := List.replicate n 48

/-- strip trailing decimal zeros: `D = D' · 10^k` -/
def stripZeros : Nat → Nat → Nat → Nat × Nat
  | 0, d, k => (d, k)
  | fuel + 1, d, k => if d != 0 && d % 10 == 0 then stripZeros fuel (d / 10) (k + 1) else (d, k)

/-- `fmtE`/`fmtF` of ftoa.go for digits `ds` (no leading/trailing zero) and decimal point `dp` -/
def render (neg : Bool) (ds : Bytes) (dp : Int) : Bytes :=
  let sign : Bytes := if neg then [45] else []
  let nd : Int := ds.length
  let x := dp - 1
  if x < -4 || x ≥ eprec then
    let mant := match ds with
      | [] => [48]
      | [d] => [d]
      | d :: rest => d :: 46 :: rest
    let ax := x.natAbs
    sign ++ mant ++ [101] ++ (if x < 0 then [45] else [43]) ++ (if ax < 10 then [48] else []) ++ digitsOf ax
  else if dp ≤ 0 then sign ++ [48, 46] ++ zeros (-dp).toNat ++ ds
  else if dp ≥ nd then sign ++ ds ++ zeros (dp - nd).toNat
  else sign ++ ds.take dp.toNat ++ [46] ++ ds.drop dp.toNat

/-- text for the decimal `D · 10^s` (D > 0) -/
def renderDec (neg : Bool) (D : Nat) (s : Int) : Bytes :=
  let (d', k) := stripZeros 400 D 0
  let ds := digitsOf d'
  render neg ds ((ds.length : Int) + s + k)

/-- is `num/den < 10^d` ? -/
def below10 (num den : Nat) (d : Int) : Bool :=
  if d ≥ 0 then num < den * 10 ^ d.toNat else num * 10 ^ (-d).toNat < den

/-- the `dp` of the exact value: the least `d` with value < 10^d (scan from a lower estimate) -/
def findDp (num den : Nat) : Nat → Int → Int
  | 0, d => d
  | fuel + 1, d => if below10 num den d then d else findDp num den fuel (d + 1)

def dp0 (num den : Nat) : Int :=
  let l : Int := (Nat.log2 num : Int) - (Nat.log2 den : Int)
  findDp num den 12 (((l - 2) * 30103) / 100000 - 1)

/-- the two `nd`-digit neighbours of `num/den`, nearer one first (ties: even first), as
(D, s) = D · 10^s -/
def neighbours (num den : Nat) (nd : Nat) : List (Nat × Int) :=
  let s : Int := dp0 num den - nd
  -- value / 10^s as a fraction
  let (n', d') := if s ≥ 0 then (num, den * 10 ^ s.toNat) else (num * 10 ^ (-s).toNat, den)
  let lo := n' / d'
  let hi := lo + 1
  let twice := 2 * n'
  let mid := (2 * lo + 1) * d'
  if n' % d' == 0 then [(lo, s)]                                   -- exact
  else if twice < mid then [(lo, s), (hi, s)]
  else if twice > mid then [(hi, s), (lo, s)]
  else if lo % 2 == 0 then [(lo, s), (hi, s)] else [(hi, s), (lo, s)]

/-- candidate texts in order of preference -/
def candidates (x : F64.Bits) : List Bytes :=
  if F64.isNaN x then [[78, 97, 78]]
  else if F64.isInf x then [if F64.signBit x then [45, 73, 110, 102] else [43, 73, 110, 102]]
  else if F64.isZero x then [if F64.signBit x then [45, 48] else [48]]
  else
    let (num, den) := F64.toFrac (F64.mant x) (F64.expo x)
    (List.range 17).flatMap fun i =>
      (neighbours num den (i + 1)).filterMap fun (D, s) =>
        if D == 0 then none else some (renderDec (F64.signBit x) D s)

/-- the text is printable non-blank ASCII and parses to `x` (NaNs identified) -/
def accept (x : F64.Bits) (t : Bytes) : Bool :=
  !t.isEmpty && t.all (fun b => 33 ≤ b && b < 128) &&
    (match parseFloatSpec t with
      | .ok y => y == Spec.RoundTrip.normNum x
      | .error _ => false)

/-- **the specification of `%v`** (`none`: no candidate of ≤ 17 digits parses back) -/
def fmtNumSpec? (x : F64.Bits) : Option Bytes := (candidates x).find? (accept x)

def fmtNumSpec (x : F64.Bits) : Bytes := (fmtNumSpec? x).getD [63]

end Spec.FmtFloat
