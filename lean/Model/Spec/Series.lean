/-
C18 — specification of the comparison series, stated directly over the *set* of projected
measurements (no builder state, no iteration): which tables, benchmarks, series points and hash
pairs exist and which measurements make up each point's numerator and denominator.

`WF` is the well-formedness under which that description is unambiguous (and under which the
theorems of Proofs/C18.lean hold); each clause names the shape it excludes:
  W1  a numerator hash has one (normalised) series stamp           — else hashToOrder keeps the last writer
  W2  the baseline results of one trial agree on the denominator hash — else the first one is kept
  W3  within a table a series stamp has one numerator hash and its trials' baseline hashes agree
      wherever present (a trial without baseline has none: repaired in /repo 83c6e29)
                                                                     — else HashPairs keeps the first visited
  W3c (combine) a point's baseline hash must be heard: only the first-visited contribution of a
      (benchmark, series) cell reaches HashPairs under DUPE_COMBINE, so some benchmark must have a
      baseline in every trial of the point (or none anywhere)       — else "" or the hash by map order
  W4  (replace) duplicates of one point have distinct normalised experiment stamps — else first visited wins
  W5  distinct tables have distinct names (unit + blank-joined table values)      — else their order is arbitrary
-/
import Model.Series.Builder
import Model.Series.Date

namespace Spec.Series
open _root_.Series

def trialBase (o : Opts) (evs : List Ev) (k : TrialKey) : Option (Bytes × List Bits) :=
  match evs.filter (fun e => e.isDen o && e.trial = k) with
  | [] => none
  | e :: es => some (e.dh, (e :: es).map (·.val))

def bhash (o : Opts) (evs : List Ev) (k : TrialKey) : Bytes := ((trialBase o evs k).map (·.1)).getD []

def allPairs {α} (l : List α) (p : α → α → Bool) : Bool := l.all fun x => l.all fun y => p x y

def W1 (env : Env) (o : Opts) (evs : List Ev) : Bool :=
  allPairs (evs.filter (·.isNum o)) fun x y => x.nh ≠ y.nh || env.norm x.ser = env.norm y.ser
def W2 (o : Opts) (evs : List Ev) : Bool :=
  allPairs (evs.filter (·.isDen o)) fun x y => x.trial ≠ y.trial || x.dh = y.dh
/-- the numerator measurements, each with the baseline hash of its trial (computed once) -/
def numsBh (o : Opts) (evs : List Ev) : List (Ev × Bytes) :=
  (evs.filter (·.isNum o)).map fun e => (e, bhash o evs e.trial)
def W3 (env : Env) (o : Opts) (evs : List Ev) : Bool :=
  allPairs (numsBh o evs) fun x y =>
    x.1.tkey ≠ y.1.tkey || normD env x.1.ser ≠ normD env y.1.ser ||
      (x.1.nh = y.1.nh && (x.2 = y.2 || x.2 = [] || y.2 = []))
/-- combine only: a series point whose trials do not all lack a baseline has a benchmark all of whose
trials (for that point) have one -/
def W3c (env : Env) (o : Opts) (evs : List Ev) : Bool :=
  let N := numsBh o evs
  N.all fun x => x.2 = [] ||
    N.any fun c => c.1.tkey = x.1.tkey && normD env c.1.ser = normD env x.1.ser &&
      N.all fun d => d.1.tkey ≠ c.1.tkey || normD env d.1.ser ≠ normD env c.1.ser || d.1.bench ≠ c.1.bench || d.2 ≠ []
def W4 (env : Env) (o : Opts) (evs : List Ev) : Bool :=
  allPairs (evs.filter (·.isNum o)) fun x y =>
    x.tkey ≠ y.tkey || x.bench ≠ y.bench || normD env x.ser ≠ normD env y.ser || x.exp = y.exp ||
      normD env x.exp ≠ normD env y.exp
def W5 (evs : List Ev) : Bool :=
  allPairs evs fun x y => x.tkey = y.tkey || uString x.tkey ≠ uString y.tkey

def WF (env : Env) (o : Opts) (pol : Policy) (evs : List Ev) : Bool :=
  W1 env o evs && W2 o evs && W3 env o evs && (pol ≠ .replace || W4 env o evs) && (pol ≠ .combine || W3c env o evs) && W5 evs

def datesOk (env : Env) (o : Opts) (evs : List Ev) : Bool :=
  evs.all fun e => (env.norm e.exp).isSome && (!e.isNum o || (env.norm e.ser).isSome)

def maxDate (env : Env) (d0 : Bytes) (ds : List Bytes) : Bytes :=
  ds.foldl (fun m d => if env.lt m d then d else m) d0

def specTable (env : Env) (o : Opts) (pol : Policy) (evs : List Ev) (t : TKey) : TableOut :=
  let E := evs.filter (·.tkey = t)
  let N := E.filter (·.isNum o)
  let benches := sortSet env (E.map (·.bench))
  let series := sortSet env (N.map fun e => normD env e.ser)
  { unit := uString t, benches := benches, series := series,
    hp := series.map fun s =>
      -- the numerator hash of the point and the baseline hash of any of its trials that has one
      (s, (N.find? fun e => normD env e.ser = s).map fun e =>
        (e.nh, ((N.filter fun x => normD env x.ser = s && bhash o evs x.trial ≠ []).head?.map
                  fun x => bhash o evs x.trial).getD [])),
    points := benches.flatMap fun bn => series.filterMap fun s =>
      -- the numerator measurements of the point
      let X := N.filter fun e => e.bench = bn && normD env e.ser = s
      match X with
      | [] => none
      | x0 :: _ =>
        match pol with
        | .replace =>
          -- the latest experiment wins
          let best := X.foldl (fun m e => if env.lt (normD env m.exp) (normD env e.exp) then e else m) x0
          some { bench := bn, ser := s, date := normD env best.exp,
                 num := sortBits ((X.filter (·.exp = best.exp)).map (·.val)),
                 den := (trialBase o evs best.trial).map fun b => sortBits b.2 }
        | .combine =>
          -- all experiments of the point, concatenated
          let exps := X.map (·.exp)
          let dens := E.filter fun e => e.isDen o && e.bench = bn && exps.contains e.exp
          some { bench := bn, ser := s, date := maxDate env (normD env x0.exp) (X.map fun e => normD env e.exp),
                 num := sortBits (X.map (·.val)),
                 den := if dens.isEmpty then none else some (sortBits (dens.map (·.val))) } }

def specSeries (env : Env) (o : Opts) (pol : Policy) (evs : List Ev) : Option (List TableOut) :=
  if datesOk env o evs then
    let keys := (dedup (evs.map (·.tkey))).mergeSort (fun x y => !tableLess env y x)
    some (keys.map (specTable env o pol evs))
  else none

/-! ### dates: two inputs denote the same instant / an earlier instant -/

def instantOf (s : Bytes) : Option (Int × Nat) := (Date.parse s).map Date.instant

def instLt (a b : Int × Nat) : Bool := a.1 < b.1 || (a.1 = b.1 && a.2 < b.2)

end Spec.Series
