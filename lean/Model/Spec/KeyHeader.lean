/-
C16 — specification of a column-header tree, independent of the tree walk: at level k a new
header cell starts at key i exactly when i = 0 or key i differs from key i-1 in one of the fields
0..k; the cell extends to the next such boundary and is labelled with field k of its first key.
-/
import Model.Base.Bytes

namespace Spec.KeyHeader

def boundary (keys : List (List Bytes)) (k i : Nat) : Bool :=
  i == 0 || (keys.getD i []).take (k + 1) != (keys.getD (i - 1) []).take (k + 1)

/-- (value, start, len) of every header cell of level k -/
def specLevel (keys : List (List Bytes)) (k : Nat) : List (Bytes × Nat × Nat) :=
  let starts := (List.range keys.length).filter (boundary keys k)
  let ends := starts.drop 1 ++ [keys.length]
  (starts.zip ends).map fun (s, e) => ((keys.getD s []).getD k [], s, e - s)

end Spec.KeyHeader
