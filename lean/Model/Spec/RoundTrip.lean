/-
Specification for property C01 ("benchmark records survive a write/read round trip"),
written without any of the writer's machinery (no running `fileConfig`, no `order`, no diffing).

  observe r   what the property talks about in one record: for a result its name, iteration
              count, the measurements *as written* (original value and unit when the reader
              rescaled them) and the FILE configuration as a finite map key ↦ value (internal
              configuration is not part of it); for unit metadata the unit as written, the key,
              the value and the tidied unit; syntax errors are not written at all.
  demand      reading back what was written yields   observeWritten h   — and nothing else
              (an error record in the read-back stream is visible as `Obs.err`).
  WF          the records for which the format can express this at all. Every clause is needed by
              the real reader or writer (the reason is stated at the clause).

The N1 class (a file-configuration value ending in CR) is kept as a separate predicate
`hasCRValue`: the specification still demands the round trip there; the implementation is
known not to deliver it (known finding N1).

Token-level notions ("a key the reader accepts", "a field") are expressed with the reader's own
single-line functions `kvScan` / `takeField` (shared token grammar, as in `Spec/Format.lean`).

Core Lean only.
-/
import Model.Fmt.Reader

namespace Spec.RoundTrip
open Fmt

/-! ### Observation -/

/-- every NaN prints as `NaN`; the payload is not expressible in the format -/
def isNaN (b : UInt64) : Bool :=
  -- exponent field all ones, fraction field non-zero (the same expression as `F64.isNaN`)
  ((b >>> 52) &&& 0x7FF).toNat == 2047 && (b &&& 0xFFFFFFFFFFFFF).toNat != 0

def normNum (b : UInt64) : UInt64 := if isNaN b then 0x7FF8000000000001 else b

/-- value (bits, NaNs identified) and unit as originally written -/
def written (v : Val) : UInt64 × Bytes :=
  if v.origUnit.isEmpty then (normNum v.value, v.unit) else (normNum v.origValue, v.origUnit)

/-- the file configuration of a result: its `File = true` entries -/
def fileMap (config : List Cfg) : List (Bytes × Bytes) :=
  (config.filter (·.file)).map fun c => (c.key, c.value)

inductive Obs where
  | result (name : Bytes) (iters : Int) (vals : List (UInt64 × Bytes)) (fileMap : List (Bytes × Bytes))
  | unit (origUnit key value tidyUnit : Bytes)
  | err (msg : Bytes)
  deriving Repr, DecidableEq

def observe : Rec → Obs
  | .result r => .result r.name r.iters (r.values.map written) (fileMap r.config)
  | .unit u => .unit u.origUnit u.key u.value u.unit
  | .err e => .err e.msg

/-- what a reader of the output must see: syntax-error records are not written -/
def observeWritten (h : List Rec) : List Obs :=
  h.filterMap fun r => match r with
    | .err _ => none
    | r => some (observe r)

/-- what a reader did see (errors included) -/
def observeRead (rs : List Rec) : List Obs := rs.map observe

/-- Keys that are internal configuration in a result and file configuration in what was read
back for it (must be empty). -/
def leaked (written read : List Cfg) : List Bytes :=
  ((written.filter (fun c => !c.file)).map (·.key)).filter fun k => read.any (fun c => c.key == k && c.file)

/-! ### Well-formedness -/

/-- no byte is one of the ASCII spaces TAB LF VT FF CR SP (each of them is a space rune wherever
it stands, also inside a malformed UTF-8 sequence) -/
def noAsciiSpace (t : Bytes) : Bool := t.all (fun c => !asciiSpace c)

/-- A key the reader's key/value rule accepts: non-empty, first rune lower case, no space or
upper-case rune, no colon — i.e. scanning `key:` finds exactly `key`. Needed for file keys: the
writer prints `key: value` and `key:` and the reader must take them for what they are. -/
def keyOK (uc : UC) (k : Bytes) : Bool := noAsciiSpace k && kvScan uc true 0 (k ++ [58]) == .found k []

/-- A file-configuration value: non-empty (an empty value is the deletion line), no LF (it would
end the line), no leading blank or tab (the reader strips them) — and not ending in CR (the line
scanner strips one CR: N1). -/
def valueOKnoCR (v : Bytes) : Bool :=
  !v.isEmpty && !Bytes.hasByte v 10 && !(v.head?.map isBlank).getD false

def endsCR (v : Bytes) : Bool := v.getLast? == some 13

def valueOK (v : Bytes) : Bool := valueOKnoCR v && !endsCR v

/-- A token that `splitField` returns whole when a blank follows: free of space runes (as
`unicode.IsSpace` sees them after `utf8.DecodeRune`). The empty token qualifies. -/
def tokenOK (uc : UC) (t : Bytes) : Bool := noAsciiSpace t && takeField uc 0 (t ++ [32]) == (t, [])

/-- The line `key:` the writer prints when an INTERNAL key disappears (it prints it for every
key it knows) must be harmless: either `key` is a regular key (then it deletes a key the
reader does not hold) or the reader ignores the line; and the key holds no LF. -/
def internalKeyOK (O : Oracles) (k : Bytes) : Bool :=
  !Bytes.hasByte k 10 &&
    (keyOK O.uc k ||
      (!Bytes.hasPrefix (k ++ [58]) benchmarkPrefix && (isUnitLine O.uc (k ++ [58])).isNone &&
        (parseKeyValueLine O.uc (k ++ [58])).isNone))

def cfgOKnoCR (O : Oracles) (c : Cfg) : Bool :=
  if c.file then keyOK O.uc c.key && valueOKnoCR c.value else internalKeyOK O c.key

def distinct (ks : List Bytes) : Bool :=
  match ks with
  | [] => true
  | k :: rest => !rest.contains k && distinct rest

/-- measurement: the unit that is written is a non-empty field -/
def valOK (uc : UC) (v : Val) : Bool :=
  let u := if v.origUnit.isEmpty then v.unit else v.origUnit
  !u.isEmpty && tokenOK uc u

/-- A result, CR clause aside: configuration keys pairwise distinct (`Config` is a map: the
writer looks keys up by `ConfigIndex`); file entries expressible; at least one measurement (the
reader rejects a line without: "missing measurements"); the name is one field (possibly empty);
units are non-empty fields. -/
def resOKnoCR (O : Oracles) (r : Res) : Bool :=
  distinct (r.config.map (·.key)) && r.config.all (cfgOKnoCR O) &&
    !r.values.isEmpty && tokenOK O.uc r.name && r.values.all (valOK O.uc)

/-- Unit metadata: unit as written is a non-empty field; the key is non-empty, holds no `=` and
`key=value` is one field (the reader splits at the first `=`); the record's tidied unit is the
tidied form of the unit as written (the reader recomputes it). -/
def unitOK (O : Oracles) (u : UnitMeta) : Bool :=
  !u.origUnit.isEmpty && tokenOK O.uc u.origUnit &&
    !u.key.isEmpty && !Bytes.hasByte u.key 61 && tokenOK O.uc (u.key ++ [61] ++ u.value) &&
    u.unit == (O.tidy 0x3FF0000000000000 u.origUnit).2

def recOKnoCR (O : Oracles) : Rec → Bool
  | .result r => resOKnoCR O r
  | .unit u => unitOK O u
  | .err _ => true

/-- the (tidied unit, key) pairs of the unit-metadata records of a history -/
def unitKeys (h : List Rec) : List (Bytes × Bytes) :=
  h.filterMap fun r => match r with
    | .unit u => some (u.unit, u.key)
    | _ => none

def distinctPairs : List (Bytes × Bytes) → Bool
  | [] => true
  | p :: rest => !rest.contains p && distinctPairs rest

/-- A history, CR clause aside: every record well formed, and no (tidied unit, key) setting
twice — the reader reports a repeated setting as nothing (same value) or as an error
(different value). -/
def WFnoCR (O : Oracles) (h : List Rec) : Bool :=
  h.all (recOKnoCR O) && distinctPairs (unitKeys h)

/-- N1 class: some file-configuration value of the stream ends in CR. -/
def hasCRValue (h : List Rec) : Bool :=
  h.any fun r => match r with
    | .result r => r.config.any (fun c => c.file && endsCR c.value)
    | _ => false

def WF (O : Oracles) (h : List Rec) : Bool := WFnoCR O h && !hasCRValue h

end Spec.RoundTrip
