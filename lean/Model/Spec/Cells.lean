/-
C14 — specification of benchstat's cell structure, written directly over the filtered
measurement stream (no Builder, no maps):

  * cells = groupBy (table key incl. unit, row key, column key) of the stream; a cell exists iff
    its group is non-empty; its sample is the multiset of the group's values;
  * the residue warning of a cell names exactly the flattened residue fields in which two
    measurements of the group differ;
  * geomean row: the baseline is the smallest column (in the requested order) present in the
    table; "benchmark sets differ" means the column's set of rows is not the baseline's set of
    rows; "values not positive" refers to the centres of the column and to the per-row ratios.

Core Lean only.
-/
import Model.Tab.Pipeline

namespace Spec.Cells
open Tab

structure Meas (κ ζ ν : Type) where
  table : κ
  row : κ
  col : κ
  residue : ζ
  value : ν

variable {κ ζ ν : Type} [DecidableEq κ]

def mkMeas (r : Res κ ζ ν) (tv : κ × ν) : Meas κ ζ ν :=
  { table := tv.1, row := r.row, col := r.col, residue := r.residue, value := tv.2 }

/-- the filtered measurement stream: one entry per (result, value) in input order -/
def measOf (rs : List (Res κ ζ ν)) : List (Meas κ ζ ν) := rs.flatMap fun r => r.vals.map (mkMeas r)

def inCell (t r c : κ) (m : Meas κ ζ ν) : Bool :=
  decide (m.table = t) && decide (m.row = r) && decide (m.col = c)

/-- the group of measurements that fall under (t, r, c), in input order -/
def group (ms : List (Meas κ ζ ν)) (t r c : κ) : List (Meas κ ζ ν) := ms.filter (inCell t r c)

/-- the keys under which at least one measurement falls, each once (first-appearance order) -/
def cellKeys (ms : List (Meas κ ζ ν)) : List (κ × κ × κ) :=
  (ms.map fun m => (m.table, m.row, m.col)).eraseDups

/-- flattened residue fields in which two measurements of the group differ -/
def varying (nFields : Nat) (g : List (List Bytes)) : List Nat :=
  (List.range nFields).filter fun i => g.any fun a => g.any fun b => getField a i != getField b i

/-- the residue warning the specification demands for a group: none if nothing varies -/
def residueFields (fieldNames : List Bytes) (g : List (List Bytes)) : List Bytes :=
  (varying fieldNames.length g).map (getField fieldNames)

/-! ### geomean row -/

/-- rows of table `t` that have a cell in column `c` -/
def rowsOf (ms : List (Meas κ ζ ν)) (t c : κ) : List κ :=
  ((ms.filter fun m => decide (m.table = t) && decide (m.col = c)).map (·.row)).eraseDups

def colsOf (ms : List (Meas κ ζ ν)) (t : κ) : List κ :=
  ((ms.filter fun m => decide (m.table = t)).map (·.col)).eraseDups

/-- the baseline column of table `t`: least rank among the columns present -/
def baseCol (rankC : κ → Nat) (ms : List (Meas κ ζ ν)) (t : κ) : Option κ :=
  (colsOf ms t).foldl (fun best c => match best with
    | none => some c
    | some b => if rankC c < rankC b then some c else some b) none

def sameSet (a b : List κ) : Bool := a.all (· ∈ b) && b.all (· ∈ a)

/-- "not positive": ≤ 0 or not a number -/
def notPositive (x : F64.Bits) : Bool := nonPos x || F64.isNaN x

def isPosInf (x : F64.Bits) : Bool := x == F64.posInf

structure GmFlags where
  /-- some centre of the column or of the baseline column is +∞: the warnings of this column are
  not judged (whether the running-mean geomean ends in NaN depends on the position of the ∞) -/
  hasInf : Bool := false
  differs : Bool
  /-- the sub-case repaired by commit 6fa9e62 (finding N14): baseline rows ⊊ column rows -/
  superset : Bool
  sumNonPos : Bool
  ratioWarn : Bool

/-- what the specification demands of the geomean cell of column `c` in table `t`, given the
centre of every cell (`centre t r c`, an answer of the real benchmath) -/
def gmFlags (rankC : κ → Nat) (centre : κ → κ → κ → F64.Bits) (ms : List (Meas κ ζ ν)) (t c : κ) : GmFlags :=
  match baseCol rankC ms t with
  | none => { differs := false, superset := false, sumNonPos := false, ratioWarn := false }
  | some b =>
    let rc := rowsOf ms t c
    let rb := rowsOf ms t b
    let isBase := decide (c = b)
    let centres := rc.map fun r => centre t r c
    let pairs := (rc.filter (· ∈ rb)).map fun r => (centre t r c, centre t r b)
    let bad := pairs.any fun (x, y) => !F64.eq x y && F64.eq y F64.posZero
    let ratios := pairs.filterMap fun (x, y) => ratioOf x y
    { differs := !isBase && !sameSet rc rb,
      superset := !isBase && rb.all (· ∈ rc) && !rc.all (· ∈ rb),
      hasInf := centres.any isPosInf || (rb.map fun r => centre t r b).any isPosInf || (!isBase && ratios.any isPosInf),
      sumNonPos := centres.any notPositive,
      ratioWarn := !isBase && !bad && (ratios.isEmpty || ratios.any notPositive) }

end Spec.Cells
