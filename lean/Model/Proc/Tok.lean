/-
Model of benchproc/internal/parse/tok.go (tokenizer, error tracker) and of the stdlib pieces it
leans on (utf8.DecodeRune, utf8.AppendRune, strconv.Unquote for double-quoted input,
strconv.Quote).  Core Lean only.

Go strings are `Bytes`.  A tokenizer value `tokenizer{q, errt}` is the pair of the remaining
bytes `q` and the (shared, mutable) error tracker, which is threaded through every call as an
`ErrSt`.  `len(qOrig)` is the field `n` of the context, so an offset is `n - q.length` (an `Int`:
that it is never negative is a theorem, not an artefact of truncated subtraction).

Oracles (fields of `Ctx`): `compileOK` = "regexp.Compile succeeds", `isSpaceHi` = unicode.IsSpace
on runes >= 0x80.  ASCII white space is decided by the model.
-/
import Model.Base.Bytes

namespace Proc.Tok

/-! ### UTF-8 -/

def runeError : Nat := 0xFFFD

def isCont (b : UInt8) : Bool := 0x80 ≤ b && b ≤ 0xBF

/-- second-byte ranges of three- and four-byte sequences (utf8's `acceptRanges`) -/
def lo3 (b0 : UInt8) : UInt8 := if b0 == 0xE0 then 0xA0 else 0x80
def hi3 (b0 : UInt8) : UInt8 := if b0 == 0xED then 0x9F else 0xBF
def lo4 (b0 : UInt8) : UInt8 := if b0 == 0xF0 then 0x90 else 0x80
def hi4 (b0 : UInt8) : UInt8 := if b0 == 0xF4 then 0x8F else 0xBF

/-- `utf8.DecodeRune`: (rune, width); invalid or short input gives (RuneError, 1); empty (RuneError, 0). -/
def decodeRune : Bytes → Nat × Nat
  | [] => (runeError, 0)
  | b0 :: rest =>
    if b0 < 0x80 then (b0.toNat, 1)
    else if 0xC2 ≤ b0 && b0 ≤ 0xDF then
      match rest with
      | b1 :: _ =>
        if isCont b1 then ((b0.toNat % 32) * 64 + b1.toNat % 64, 2) else (runeError, 1)
      | [] => (runeError, 1)
    else if 0xE0 ≤ b0 && b0 ≤ 0xEF then
      match rest with
      | b1 :: b2 :: _ =>
        if lo3 b0 ≤ b1 && b1 ≤ hi3 b0 && isCont b2 then
          ((b0.toNat % 16) * 4096 + (b1.toNat % 64) * 64 + b2.toNat % 64, 3)
        else (runeError, 1)
      | _ => (runeError, 1)
    else if 0xF0 ≤ b0 && b0 ≤ 0xF4 then
      match rest with
      | b1 :: b2 :: b3 :: _ =>
        if lo4 b0 ≤ b1 && b1 ≤ hi4 b0 && isCont b2 && isCont b3 then
          ((b0.toNat % 8) * 262144 + (b1.toNat % 64) * 4096 + (b2.toNat % 64) * 64 + b3.toNat % 64, 4)
        else (runeError, 1)
      | _ => (runeError, 1)
    else (runeError, 1)

/-- `utf8.ValidRune` -/
def validRune (r : Nat) : Bool := r < 0xD800 || (0xDFFF < r && r ≤ 0x10FFFF)

/-- `utf8.AppendRune(nil, r)` -/
def encodeRune (r : Nat) : Bytes :=
  if r < 0x80 then [UInt8.ofNat r]
  else if r < 0x800 then [UInt8.ofNat (0xC0 + r / 64), UInt8.ofNat (0x80 + r % 64)]
  else if !validRune r then [0xEF, 0xBF, 0xBD]
  else if r < 0x10000 then
    [UInt8.ofNat (0xE0 + r / 4096), UInt8.ofNat (0x80 + r / 64 % 64), UInt8.ofNat (0x80 + r % 64)]
  else
    [UInt8.ofNat (0xF0 + r / 262144), UInt8.ofNat (0x80 + r / 4096 % 64),
     UInt8.ofNat (0x80 + r / 64 % 64), UInt8.ofNat (0x80 + r % 64)]

/-! ### Context, tokens, error tracker -/

structure Ctx where
  /-- `len(errt.qOrig)` -/
  n : Nat
  /-- oracle: `regexp.Compile(expr)` returns no error -/
  compileOK : Bytes → Bool
  /-- oracle: `unicode.IsSpace(r)` for `r ≥ 0x80` -/
  isSpaceHi : Nat → Bool

inductive Msg
  | missingEndQuote | badEscape | missingCloseSlash | reCompile | reFollow
  | unexpected | missingParen | expectedKV | expectedValue | listSep | expectedKVorSub
  | expectedKey | nothingToMatch | missingParenProj | expectedOrder
  | configInFilter | emptyKey | unknownOrder | fixedConfig | unitInProj
  | fuel   -- model only: recursion fuel exhausted (never happens: `parse_total`)
  deriving Repr, DecidableEq, BEq

def Msg.name : Msg → String
  | .missingEndQuote => "endquote" | .badEscape => "escape" | .missingCloseSlash => "closeslash"
  | .reCompile => "recompile" | .reFollow => "refollow" | .unexpected => "unexpected"
  | .missingParen => "paren" | .expectedKV => "kv" | .expectedValue => "value" | .listSep => "listsep"
  | .expectedKVorSub => "kvorsub" | .expectedKey => "key" | .nothingToMatch => "nothing"
  | .missingParenProj => "parenproj" | .expectedOrder => "order" | .configInFilter => "config"
  | .emptyKey => "emptykey" | .unknownOrder => "unknownorder" | .fixedConfig => "fixedconfig"
  | .unitInProj => "unit" | .fuel => "fuel"

structure Err where
  off : Int
  msg : Msg
  deriving Repr, DecidableEq

/-- `errorTracker.err` -/
abbrev ErrSt := Option Err

/-- byte offset of the tokenizer position `q`: `len(t.errt.qOrig) - len(t.q)` -/
def offOf (cx : Ctx) (q : Bytes) : Int := (cx.n : Int) - (q.length : Int)

/-- `errorTracker.error`: the first error wins. -/
def recErr (cx : Ctx) (q : Bytes) (m : Msg) (e : ErrSt) : ErrSt :=
  match e with
  | none => some ⟨offOf cx q, m⟩
  | some x => some x

/-- token kinds are the bytes Go uses: 'w' 'q' 'r' 'A' 'O', an operator character, 0 = EOF -/
structure Tok where
  kind : UInt8
  off : Int
  tok : Bytes
  deriving Repr, DecidableEq

def kW : UInt8 := 119   -- 'w'
def kQ : UInt8 := 113   -- 'q'
def kR : UInt8 := 114   -- 'r'
def kA : UInt8 := 65    -- 'A'
def kO : UInt8 := 79    -- 'O'
def cLP : UInt8 := 40
def cRP : UInt8 := 41
def cColon : UInt8 := 58
def cAt : UInt8 := 64
def cComma : UInt8 := 44
def cDash : UInt8 := 45
def cStar : UInt8 := 42
def cSlash : UInt8 := 47
def cQuote : UInt8 := 34
def cBsl : UInt8 := 92
def cLB : UInt8 := 91
def cRB : UInt8 := 93

/-- result of one tokenizer call: the token, the caller's tokenizer after the call (`next` has a
pointer receiver and strips leading white space from `t.q`; `regexp` moves it on its follow
error), the returned tokenizer's `q`, and the error tracker. -/
structure TokR where
  tok : Tok
  cur : Bytes
  rest : Bytes
  err : ErrSt
  deriving Repr, DecidableEq

/-- `isOp` on a rune -/
def isOpR (r : Nat) : Bool := r == 40 || r == 41 || r == 58 || r == 64 || r == 44
/-- `isStartOp` on a rune -/
def isStartOpR (r : Nat) : Bool := isOpR r || r == 45 || r == 42
/-- `isStartOp(rune(b))` -/
def isStartOpB (b : UInt8) : Bool := isStartOpR b.toNat

/-- `unicode.IsSpace` (ASCII part decided here: \t \n \v \f \r and space) -/
def isSpaceRune (cx : Ctx) (r : Nat) : Bool :=
  if r < 0x80 then r == 0x20 || (9 ≤ r && r ≤ 13) else cx.isSpaceHi r

/-- `isSpace(q)` for non-empty `q`: number of bytes of white space at the front (0 if none) -/
def isSpaceLen (cx : Ctx) (q : Bytes) : Nat :=
  match q with
  | [] => 0
  | c :: _ =>
    if c == 0x20 then 1
    else
      let (r, size) := decodeRune q
      if isSpaceRune cx r then size else 0

/-- `t.tok(kind, token, rest)` with `t.q = cur` -/
def mkTok (cx : Ctx) (cur : Bytes) (kind : UInt8) (token rest : Bytes) (e : ErrSt) : TokR :=
  ⟨⟨kind, offOf cx cur, token⟩, cur, rest, e⟩

/-- `t.error(msg)` with `t.q = cur`: record, then move to the end. -/
def tokError (cx : Ctx) (cur : Bytes) (m : Msg) (e : ErrSt) : TokR :=
  mkTok cx cur 0 [] [] (recErr cx cur m e)

/-! ### strconv.Unquote (double-quoted input) -/

def unhex (c : UInt8) : Option Nat :=
  if 48 ≤ c && c ≤ 57 then some (c.toNat - 48)
  else if 97 ≤ c && c ≤ 102 then some (c.toNat - 97 + 10)
  else if 65 ≤ c && c ≤ 70 then some (c.toNat - 65 + 10)
  else none

/-- read exactly `n` hex digits -/
def hexN : Nat → Bytes → Nat → Option (Nat × Bytes)
  | 0, s, v => some (v, s)
  | _ + 1, [], _ => none
  | n + 1, c :: s, v =>
    match unhex c with
    | some x => hexN n s (v * 16 + x)
    | none => none

def octDigit (c : UInt8) : Option Nat := if 48 ≤ c && c ≤ 55 then some (c.toNat - 48) else none

/-- `strconv.UnquoteChar(s, '"')` followed by the append step of `unquote`:
the bytes appended to the buffer and the tail.  `none` = ErrSyntax. -/
def unquoteChar (s : Bytes) : Option (Bytes × Bytes) :=
  match s with
  | [] => none
  | c :: t =>
    if c == cQuote then none
    else if c ≥ 0x80 then
      let (r, size) := decodeRune s
      some (encodeRune r, s.drop size)
    else if c != cBsl then some ([c], t)
    else
      match t with
      | [] => none
      | d :: u =>
        if d == 97 then some ([7], u)          -- \a
        else if d == 98 then some ([8], u)     -- \b
        else if d == 102 then some ([12], u)   -- \f
        else if d == 110 then some ([10], u)   -- \n
        else if d == 114 then some ([13], u)   -- \r
        else if d == 116 then some ([9], u)    -- \t
        else if d == 118 then some ([11], u)   -- \v
        else if d == 120 then                  -- \xHH : one byte
          match hexN 2 u 0 with
          | some (v, rest) => some ([UInt8.ofNat v], rest)
          | none => none
        else if d == 117 || d == 85 then       -- \uHHHH \UHHHHHHHH : a valid rune
          match hexN (if d == 117 then 4 else 8) u 0 with
          | some (v, rest) =>
            if !validRune v then none
            else some (if v < 0x80 then [UInt8.ofNat v] else encodeRune v, rest)
          | none => none
        else if 48 ≤ d && d ≤ 55 then          -- \ooo ≤ 255
          match u with
          | o1 :: o2 :: rest =>
            match octDigit o1, octDigit o2 with
            | some x1, some x2 =>
              let v := ((d.toNat - 48) * 8 + x1) * 8 + x2
              if v > 255 then none else some ([UInt8.ofNat v], rest)
            | _, _ => none
          | _ => none
        else if d == cBsl then some ([cBsl], u)
        else if d == cQuote then some ([cQuote], u)
        else none                              -- includes \' inside double quotes

/-- the loop of `unquote` after the opening quote: stops at the first unescaped quote, which must
be the last byte (`Unquote` rejects a non-empty remainder); a raw newline is an error. -/
def unquoteLoop : Nat → Bytes → Bytes → Option Bytes
  | 0, _, _ => none
  | f + 1, s, acc =>
    match s with
    | [] => none
    | c :: t =>
      if c == cQuote then (if t.isEmpty then some acc else none)
      else if c == 10 then none
      else
        match unquoteChar s with
        | none => none
        | some (out, tail) => unquoteLoop f tail (acc ++ out)

/-- `strconv.Unquote(s)` for `s` beginning with a double quote (the only form the tokenizer
passes).  The stdlib fast path (no backslash, no newline, valid UTF-8: return the body) gives the
same answer as the loop and is not modelled separately.  Back-quoted and single-quoted input is
outside the model (`none`). -/
def unquote (s : Bytes) : Option Bytes :=
  match s with
  | c :: t => if c == cQuote && t.length ≥ 1 then unquoteLoop (t.length + 1) t [] else none
  | [] => none

/-! ### strconv.Quote -/

def lowerhex (n : Nat) : UInt8 := if n < 10 then UInt8.ofNat (48 + n) else UInt8.ofNat (87 + n)

def hexEsc (b : UInt8) : Bytes := [cBsl, 120, lowerhex (b.toNat / 16), lowerhex (b.toNat % 16)]

/-- `appendEscapedRune(buf, r, '"', false, false)`; `isPrint` = `strconv.IsPrint` (oracle). -/
def escapeRune (isPrint : Nat → Bool) (r : Nat) : Bytes :=
  if r == 34 || r == 92 then [cBsl, UInt8.ofNat r]
  else if isPrint r then encodeRune r
  else if r == 7 then [cBsl, 97] else if r == 8 then [cBsl, 98] else if r == 12 then [cBsl, 102]
  else if r == 10 then [cBsl, 110] else if r == 13 then [cBsl, 114] else if r == 9 then [cBsl, 116]
  else if r == 11 then [cBsl, 118]
  else if r < 0x20 || r == 0x7f then hexEsc (UInt8.ofNat r)
  else
    let r := if validRune r then r else 0xFFFD
    if r < 0x10000 then
      [cBsl, 117, lowerhex (r / 4096 % 16), lowerhex (r / 256 % 16), lowerhex (r / 16 % 16), lowerhex (r % 16)]
    else
      [cBsl, 85, lowerhex (r / 268435456 % 16), lowerhex (r / 16777216 % 16), lowerhex (r / 1048576 % 16),
       lowerhex (r / 65536 % 16), lowerhex (r / 4096 % 16), lowerhex (r / 256 % 16), lowerhex (r / 16 % 16),
       lowerhex (r % 16)]

/-- body of `strconv.Quote(s)` (between the quotes) -/
def quoteBody (isPrint : Nat → Bool) : Nat → Bytes → Bytes
  | 0, _ => []
  | f + 1, s =>
    match s with
    | [] => []
    | c :: _ =>
      let (r, width) := if c < 0x80 then (c.toNat, 1) else decodeRune s
      if width == 1 && r == runeError then hexEsc c ++ quoteBody isPrint f (s.drop 1)
      else escapeRune isPrint r ++ quoteBody isPrint f (s.drop width)

/-- `strconv.Quote(s)` -/
def goQuote (isPrint : Nat → Bool) (s : Bytes) : Bytes :=
  cQuote :: (quoteBody isPrint (s.length + 1) s ++ [cQuote])

/-- every byte written as `\xHH`: a double-quoted Go string literal for an arbitrary byte string
that needs no Unicode knowledge -/
def hexQuote (s : Bytes) : Bytes := cQuote :: (s.flatMap hexEsc ++ [cQuote])

/-! ### the tokenizer -/

/-- the end-quote scan of `quotedWord` (after the opening quote): the bytes before the closing
quote and the bytes after it; `none` = ran off the end ("missing end quote").  A backslash skips
the following byte (repaired in 2efbfeb). -/
def scanQuote : Bytes → Option (Bytes × Bytes)
  | [] => none
  | c :: r =>
    if c == cQuote then some ([], r)
    else if c == cBsl then
      match r with
      | [] => none
      | d :: r' =>
        match scanQuote r' with
        | some (b, rest) => some (c :: d :: b, rest)
        | none => none
    else
      match scanQuote r with
      | some (b, rest) => some (c :: b, rest)
      | none => none

/-- `quotedWord` with `t.q = q`, `q[0] == '"'` -/
def quotedWord (cx : Ctx) (q : Bytes) (e : ErrSt) : TokR :=
  match scanQuote (q.drop 1) with
  | none => tokError cx q .missingEndQuote e
  | some (body, rest) =>
    match unquote (cQuote :: (body ++ [cQuote])) with
    | none => tokError cx q .badEscape e
    | some word => mkTok cx q kQ word rest e

/-- the `for i, r := range t.q` loop of `bareWord`: (word, rest) -/
def bareSplit (cx : Ctx) : Nat → Bytes → Bytes × Bytes
  | 0, q => ([], q)
  | f + 1, q =>
    match q with
    | [] => ([], [])
    | _ :: _ =>
      let (r, size) := decodeRune q
      if isSpaceRune cx r || isOpR r then ([], q)
      else
        let (w, rest) := bareSplit cx f (q.drop size)
        (q.take size ++ w, rest)

/-- key and order names as explicit bytes (so that the kernel can compare them) -/
def kUnit : Bytes := [46, 117, 110, 105, 116]                    -- ".unit"
def kConfig : Bytes := [46, 99, 111, 110, 102, 105, 103]         -- ".config"
def kFullname : Bytes := [46, 102, 117, 108, 108, 110, 97, 109, 101]  -- ".fullname"
def oFirst : Bytes := [102, 105, 114, 115, 116]                  -- "first"
def oFixed : Bytes := [102, 105, 120, 101, 100]                  -- "fixed"
def oAlpha : Bytes := [97, 108, 112, 104, 97]                    -- "alpha"
def oNum : Bytes := [110, 117, 109]                              -- "num"

def wAND : Bytes := [65, 78, 68]
def wOR : Bytes := [79, 82]

/-- `bareWord` -/
def bareWord (cx : Ctx) (q : Bytes) (e : ErrSt) : TokR :=
  let (word, rest) := bareSplit cx (q.length + 1) q
  if word == wAND then mkTok cx q kA word rest e
  else if word == wOR then mkTok cx q kO word rest e
  else mkTok cx q kW word rest e

/-- `regexpParseUntil(str, "/")` with bracket depth `cs` and paren depth `cp` (may go negative):
(expr, rest) with `rest` starting at the delimiter; `none` = errNoDelim. -/
def reScan : Bytes → Nat → Int → Option (Bytes × Bytes)
  | [], _, _ => none
  | c :: r, cs, cp =>
    if cs == 0 && cp == 0 && c == cSlash then some ([], c :: r)
    else if c == cBsl then
      match r with
      | [] => none
      | d :: r' =>
        match reScan r' cs cp with
        | some (x, rest) => some (c :: d :: x, rest)
        | none => none
    else
      let cs' := if c == cLB then cs + 1 else if c == cRB then cs - 1 else cs
      let cp' := if cs == 0 then (if c == cLP then cp + 1 else if c == cRP then cp - 1 else cp) else cp
      match reScan r cs' cp' with
      | some (x, rest) => some (c :: x, rest)
      | none => none

/-- `q2 == "" || unicode.IsSpace(rune(q2[0])) || isStartOp(rune(q2[0]))` -/
def followOK (cx : Ctx) (q2 : Bytes) : Bool :=
  match q2 with
  | [] => true
  | c :: _ => isSpaceRune cx c.toNat || isStartOpB c

/-- `regexp` with `t.q = q`, `q[0] == '/'` -/
def regexpTok (cx : Ctx) (q : Bytes) (e : ErrSt) : TokR :=
  match reScan (q.drop 1) 0 0 with
  | none => tokError cx q .missingCloseSlash e
  | some (expr, rest) =>
    if !cx.compileOK expr then tokError cx q .reCompile e
    else
      let q2 := rest.drop 1
      if followOK cx q2 then mkTok cx q kR expr q2 e
      else tokError cx q2 .reFollow e

/-- `next(allowRegexp)`; fuel bounds the white-space skipping loop (`q.length + 1` suffices). -/
def nextF (cx : Ctx) (allowRe : Bool) : Nat → Bytes → ErrSt → TokR
  | 0, q, e => mkTok cx q 0 [] [] e
  | f + 1, q, e =>
    match q with
    | [] => mkTok cx [] 0 [] [] e
    | c :: r =>
      if isStartOpB c then mkTok cx q c [c] r e
      else
        let n := isSpaceLen cx q
        if n > 0 then nextF cx allowRe f (q.drop n) e
        else if allowRe && c == cSlash then regexpTok cx q e
        else if c == cQuote then quotedWord cx q e
        else bareWord cx q e

def next (cx : Ctx) (allowRe : Bool) (q : Bytes) (e : ErrSt) : TokR :=
  nextF cx allowRe (q.length + 1) q e

/-- `t.end()`: the error tracker afterwards -/
def endCheck (cx : Ctx) (q : Bytes) (e : ErrSt) : ErrSt :=
  let r := next cx false q e
  if r.tok.kind != 0 then recErr cx r.cur .unexpected r.err else r.err

end Proc.Tok
