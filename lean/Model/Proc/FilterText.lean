/-
C06 ∘ C07: from expression TEXT to a compiled filter.

`Proc.ParseFilter.parseFilter` (property C07, read-only here) is the model of
`parse.ParseFilter`; `toTree` converts its tree into the tree vocabulary of
`Proc.FilterEval` (a regular expression `/expr/` becomes the oracle index `reId expr`, an
injective numbering of byte strings), and `walk` compiles it.  `newFilterText` is therefore the
model of `benchproc.NewFilter(text)` end to end.
-/
import Model.Proc.ParseFilter
import Model.Proc.FilterEval

namespace Proc.FilterText
open Proc.Tok Proc.FilterEval

/-- injective numbering of byte strings (base 256 with a leading 1): the oracle index under which
the regular expression with source `expr` is looked up -/
def reId (expr : Bytes) : Nat := expr.foldl (fun acc b => acc * 256 + b.toNat) 1

mutual
/-- `parse.Filter` of the parser model → tree of the evaluator model.  `none` for the shapes the
parser only returns next to an error (nil) or never builds (NOT without exactly one operand). -/
def toTree : Proc.ParseFilter.Filter → Option Filter
  | .nil => none
  | .op .and es => (toTrees es).map .and
  | .op .or es => (toTrees es).map .or
  | .op .not es =>
    match toTrees es with
    | some [e] => some (.not e)
    | _ => none
  | .lit key val off => some (.mtch key off.toNat (.lit val))
  | .re key expr off => some (.mtch key off.toNat (.re (reId expr)))
def toTrees : List Proc.ParseFilter.Filter → Option (List Filter)
  | [] => some []
  | e :: es =>
    match toTree e, toTrees es with
    | some t, some ts => some (t :: ts)
    | _, _ => none
end

inductive TextErr
  | syntax (e : Err)        -- ParseFilter failed
  | badTree                 -- cannot happen for an accepted text (checked dynamically by K)
  | compile (e : CompileErr) -- NewFilter's own rejections
  deriving Repr

/-- `parse.ParseFilter(text)` in the evaluator's vocabulary -/
def filterOfText (cx : Ctx) (text : Bytes) : Except TextErr Filter :=
  match Proc.ParseFilter.parseFilter cx text with
  | .error e => .error (.syntax e)
  | .ok t =>
    match toTree t with
    | some t' => .ok t'
    | none => .error .badTree

/-- `benchproc.NewFilter(text)` -/
def newFilterText (cx : Ctx) (re : ReOracle) (text : Bytes) : Except TextErr FilterFn :=
  match filterOfText cx text with
  | .error e => .error e
  | .ok t =>
    match walk re t with
    | .ok f => .ok f
    | .error e => .error (.compile e)

end Proc.FilterText
