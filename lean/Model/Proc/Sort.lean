/-
Model of benchproc/sort.go (Key.Less, less, SortKeys, builtinOrders) and of the order part of
benchproc/projection.go (the `first` and `fixed` comparators built in makeProjection).

`parseNum` (strconv.ParseFloat, then the regexp `([0-9.]+)([kKMGTPEZY]i?)?[bB]?`) is NOT modelled:
it is a parameter `pn : Bytes → NumC` of every definition and theorem; the harness supplies the
real result for every value it uses.
-/
import Model.Base.Bytes

namespace Proc.Sort

/-- Go's `a < b` on strings: bytewise lexicographic. -/
def ltBytes : Bytes → Bytes → Bool
  | _, [] => false
  | [], _ :: _ => true
  | a :: as, b :: bs => if a < b then true else if b < a then false else ltBytes as bs

/-- `strings.Compare`. -/
def cmpBytes (a b : Bytes) : Int := if a == b then 0 else if ltBytes a b then -1 else 1

/-- Result class of `parseNum`: error, NaN, or a non-NaN float64 represented by an integer key
that is monotone in the float (sign-magnitude of the bit pattern; −0 and +0 both 0). -/
inductive NumC
  | err
  | nan
  | val (k : Int)
  deriving Repr, DecidableEq, Inhabited

/-- `builtinOrders["num"]` for a given `parseNum`. -/
def cmpNum (pn : Bytes → NumC) (a b : Bytes) : Int :=
  match pn a, pn b with
  | .err, .err => 0          -- both unparseable: unordered
  | .err, _ => 1             -- floats before non-floats
  | _, .err => -1
  | .val x, .val y => if x < y then -1 else if y < x then 1 else 0
  | .val _, .nan => -1       -- NaNs after other values
  | .nan, .val _ => 1
  | .nan, .nan => 0

/-- A Go `map[string]int` as an association list; lookups of missing keys give the zero value. -/
abbrev RankMap := List (Bytes × Nat)

def RankMap.get? (m : RankMap) (v : Bytes) : Option Nat := (m.find? (·.1 == v)).map (·.2)

/-- `m[v]` -/
def RankMap.get (m : RankMap) (v : Bytes) : Nat := (RankMap.get? m v).getD 0

/-- `m[v] = n` -/
def RankMap.set : RankMap → Bytes → Nat → RankMap
  | [], v, n => [(v, n)]
  | (k, x) :: rest, v, n => if k == v then (k, n) :: rest else (k, x) :: RankMap.set rest v n

/-- `if _, ok := m[v]; !ok { m[v] = len(m) }` -/
def RankMap.observe (m : RankMap) (v : Bytes) : RankMap :=
  match RankMap.get? m v with
  | some _ => m
  | none => m ++ [(v, m.length)]

/-- `func(a, b string) int { return m[a] - m[b] }` -/
def cmpRank (m : RankMap) (a b : Bytes) : Int := (RankMap.get m a : Int) - (RankMap.get m b : Int)

/-- `for i, s := range proj.Fixed { fixedMap[s] = i }` -/
def fixedMapAux : List Bytes → Nat → RankMap → RankMap
  | [], _, m => m
  | s :: rest, i, m => fixedMapAux rest (i + 1) (RankMap.set m s i)

def fixedMap (l : List Bytes) : RankMap := fixedMapAux l 0 []

/-- The four kinds of order a projection field can have. -/
inductive Order
  | first
  | alpha
  | num
  | fixed (l : List Bytes)
  deriving Repr, DecidableEq, Inhabited

/-- A (non-tuple) field: name, index of its values in a key node, its order and, for
`first`, the observation-order map `field.order`. -/
structure Field where
  name : Bytes
  idx : Nat
  order : Order
  ranks : RankMap
  deriving Repr, DecidableEq, Inhabited

/-- `field.cmp` as installed by `initField`. -/
def Field.cmp (pn : Bytes → NumC) (f : Field) : Bytes → Bytes → Int :=
  match f.order with
  | .first => cmpRank f.ranks
  | .alpha => cmpBytes
  | .num => cmpNum pn
  | .fixed l => cmpRank (fixedMap l)

/-- `vals[idx]` with the bounds check of `less`/`Key.Get` (missing = ""). -/
def getVal (vals : List Bytes) (idx : Nat) : Bytes := vals.getD idx []

/-- `less(flat, a, b)` for arbitrary per-field comparison functions. -/
def lessBy (cmpOf : Field → Bytes → Bytes → Int) : List Field → List Bytes → List Bytes → Bool
  | [], _, _ => false
  | node :: rest, a, b =>
    let aa := getVal a node.idx
    let bb := getVal b node.idx
    if aa != bb then
      let c := cmpOf node aa bb
      if c != 0 then decide (c < 0)
      else ltBytes aa bb
    else lessBy cmpOf rest a b

/-- `less(flat, a, b)` of sort.go. -/
def less (pn : Bytes → NumC) (flat : List Field) (a b : List Bytes) : Bool :=
  lessBy (Field.cmp pn) flat a b

/-- Insertion into a list sorted by `lt` (after all elements that are not greater). -/
def insertBy {α : Type} (lt : α → α → Bool) (x : α) : List α → List α
  | [] => [x]
  | y :: ys => if lt x y then x :: y :: ys else y :: insertBy lt x ys

/-- A reference sort. `sort.Slice` itself is Go's standard library (trusted to return a sorted
permutation when given a strict weak order); `sorted_perm_unique` shows that every sorted
permutation of distinct keys equals this one. -/
def sortBy {α : Type} (lt : α → α → Bool) : List α → List α
  | [] => []
  | x :: xs => insertBy lt x (sortBy lt xs)

end Proc.Sort
