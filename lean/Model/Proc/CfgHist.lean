/-
Histories of configuration built through the API: `SetConfig` (incl. deletion) on the current
result, `Clone` (the clone becomes current), and switching back to the previously current result.
One skeleton, two instances: the slot store of `benchfmt.Result` (model of the code) and a finite
map per result (specification).
-/
import Model.Fmt.Result
import Model.Spec.Format

namespace Proc.CfgHist
open Fmt Spec.Format

inductive HOp where
  | clone
  | back
  | set (k v : Bytes)
  deriving Repr, DecidableEq

/-- every result ever created (creation order), the current one, the stack of earlier ones -/
structure Hist (α : Type) where
  all : List α
  cur : Nat
  stack : List Nat

def Hist.step {α : Type} (dflt : α) (clone : α → α) (set : α → Bytes → Bytes → α)
    (h : Hist α) : HOp → Hist α
  | .clone => { all := h.all ++ [clone (h.all.getD h.cur dflt)], cur := h.all.length, stack := h.cur :: h.stack }
  | .back =>
    match h.stack with
    | p :: rest => { h with cur := p, stack := rest }
    | [] => h
  | .set k v => { h with all := h.all.set h.cur (set (h.all.getD h.cur dflt) k v) }

/-- `Clone()` restricted to the configuration: `make([]Config, len(r.Config))` filled slot by
slot with copies; `configPos` is nil in the new `Result`. -/
def cloneStore (s : Store) : Store := { arr := s.live, len := s.live.length, pos := none }

/-- the code: slot stores -/
def stepStore : Hist Store → HOp → Hist Store :=
  Hist.step Store.empty cloneStore (fun s k v => s.set k v false)

/-- the specification: one finite map per result -/
def stepMap : Hist CMap → HOp → Hist CMap :=
  Hist.step [] id (fun m k v => m.assign k v false)

def initStore : Hist Store := { all := [Store.empty], cur := 0, stack := [] }
def initMap : Hist CMap := { all := [[]], cur := 0, stack := [] }

/-- what a plain-key extractor reads: `ConfigIndex` through the position index, then the slot -/
def lookupStore (s : Store) (k : Bytes) : Bytes :=
  match s.get k with
  | some c => c.value
  | none => []

def lookupMap (m : CMap) (k : Bytes) : Bytes :=
  match m.get k with
  | some e => e.1
  | none => []

end Proc.CfgHist
