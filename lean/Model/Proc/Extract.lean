/-
Model of benchproc/extract.go: newExtractor dispatch, extractNamePart, extractConfig,
extractFullExcluded.
-/
import Model.Fmt.Name

namespace Proc.Extract
open Bytes Fmt.Name

/-- What an extractor sees of a result: the name and the configuration (key, value) in slot order. -/
structure ResView where
  name : Bytes
  config : List (Bytes × Bytes)

def extractConfig (r : ResView) (key : Bytes) : Bytes :=
  match r.config.find? (·.1 == key) with
  | some kv => kv.2
  | none => []

def extractNamePart (name : Bytes) (pfx : Bytes) (isGomaxprocs : Bool) : Bytes :=
  let ps := (parts name).2
  let viaSuffix : Option Bytes :=
    if isGomaxprocs then
      match ps.getLast? with
      | some last => if last.head? == some dash then some (last.drop 1) else none
      | none => none
    else none
  match viaSuffix with
  | some v => v
  | none =>
    match ps.find? (hasPrefix · pfx) with
    | some p => p.drop pfx.length
    | none => []

/-- "/gomaxprocs" -/
def gomaxprocsKey : Bytes := [47, 103, 111, 109, 97, 120, 112, 114, 111, 99, 115]
/-- ".name" -/
def dotName : Bytes := [46, 110, 97, 109, 101]
/-- ".fullname" -/
def dotFullname : Bytes := [46, 102, 117, 108, 108, 110, 97, 109, 101]
/-- ".config" -/
def dotConfig : Bytes := [46, 99, 111, 110, 102, 105, 103]
/-- ".unit" -/
def dotUnit : Bytes := [46, 117, 110, 105, 116]

inductive ExtractErr | emptyKey | notExtractor
  deriving Repr, DecidableEq

/-- `newExtractor(key)` applied to a result. -/
def extract (key : Bytes) (r : ResView) : Except ExtractErr Bytes :=
  if key.isEmpty then .error .emptyKey
  else if key == dotConfig || key == dotUnit then .error .notExtractor
  else if key == dotName then .ok (base r.name)
  else if key == dotFullname then .ok r.name
  else if key.head? == some slash then
    .ok (extractNamePart r.name (key ++ [eqc]) (key == gomaxprocsKey))
  else .ok (extractConfig r key)

/-- `extractFullExcluded`: `delete` holds the `/k=` prefixes. -/
def extractFullExcluded (name : Bytes) (delete : List Bytes) (excName excGomaxprocs : Bool) : Bytes :=
  let found := excName || delete.any (contains name ·) || (excGomaxprocs && hasByte name dash)
  if !found then name
  else
    let (b, ps) := parts name
    let start := if excName then [star] else b
    let kept := ps.filter fun part =>
      !(delete.any (hasPrefix part ·)) && !(excGomaxprocs && part.head? == some dash)
    start ++ kept.flatten

/-- `newExtractorFullName(exclude)` applied to a name. -/
def fullNameExcluding (exclude : List Bytes) (name : Bytes) : Bytes :=
  let excName := exclude.any (· == dotName)
  let subs := exclude.filter (·.head? == some slash)
  let delete := subs.map (· ++ [eqc])
  let excG := subs.any (· == gomaxprocsKey)
  if delete.isEmpty && !excName && !excG then name
  else extractFullExcluded name delete excName excG

end Proc.Extract
