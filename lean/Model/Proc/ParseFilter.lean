/-
Model of benchproc/internal/parse/filter.go (recursive-descent filter parser) and of the
semantic rejections of benchproc.NewFilter.  Core Lean only.

Every function takes fuel as its first argument and passes `fuel - 1` to each callee; the loops of
`expr`, `andExpr` and of the value list are the `…Loop` functions.  Exhausted fuel records the model-only
error `Msg.fuel`;  `Proofs/C07.lean` shows that
the fuel handed out by `parseFilter` is never exhausted (`parse_total`).
-/
import Model.Proc.Tok

namespace Proc.ParseFilter
open Proc.Tok

inductive Op | and | or | not
  deriving Repr, DecidableEq

/-- parse.Filter: `nil` stands for Go's nil interface returned next to an error. -/
inductive Filter
  | nil
  | op (o : Op) (es : List Filter)
  | lit (key val : Bytes) (off : Int)
  | re (key expr : Bytes) (off : Int)
  deriving Repr

structure PR where
  f : Filter
  rest : Bytes
  err : ErrSt
  deriving Repr

/-- `p.error(toks, msg)` with `toks.q = cur`, returned next to a nil Filter -/
def perr (cx : Ctx) (cur : Bytes) (m : Msg) (e : ErrSt) : PR := ⟨.nil, [], recErr cx cur m e⟩

/-- `mkMatch` -/
def mkMatch (off : Int) (key : Bytes) (val : Tok) : Filter :=
  if val.kind == kR then .re key val.tok off else .lit key val.tok off

def isWord (k : UInt8) : Bool := k == kW || k == kQ
def isValue (k : UInt8) : Bool := k == kW || k == kQ || k == kR

/-- the `for` loop of the parenthesised value list in `match`; `rest` is positioned after "(" or
after "OR". -/
def listLoop (cx : Ctx) (off : Int) (key : Bytes) : Nat → List Filter → Bytes → ErrSt → PR
  | 0, _, rest, e => perr cx rest .fuel e
  | f + 1, terms, rest, e =>
    let v := next cx true rest e
    if !isValue v.tok.kind then perr cx v.cur .expectedValue v.err
    else
      let terms := terms ++ [mkMatch off key v.tok]
      let s := next cx true v.rest v.err
      if s.tok.kind == cRP then ⟨.op .or terms, s.rest, s.err⟩
      else if s.tok.kind == kO then listLoop cx off key f terms s.rest s.err
      else perr cx s.cur .listSep s.err

def finish (o : Op) (terms : List Filter) : Filter :=
  match terms with
  | [t] => t
  | _ => .op o terms

mutual
/-- `p.expr` -/
def exprF (cx : Ctx) : Nat → Bytes → ErrSt → PR
  | 0, q, e => perr cx q .fuel e
  | f + 1, q, e => exprLoop cx f [] q e

def exprLoop (cx : Ctx) : Nat → List Filter → Bytes → ErrSt → PR
  | 0, _, q, e => perr cx q .fuel e
  | f + 1, terms, q, e =>
    let a := andExprF cx f q e
    let terms := terms ++ [a.f]
    let op := next cx false a.rest a.err
    if op.tok.kind == kO then exprLoop cx f terms op.rest op.err
    else ⟨finish .or terms, op.cur, op.err⟩

/-- `p.andExpr` -/
def andExprF (cx : Ctx) : Nat → Bytes → ErrSt → PR
  | 0, q, e => perr cx q .fuel e
  | f + 1, q, e =>
    let m := matchF cx f q e
    andLoop cx f [m.f] m.rest m.err

def andLoop (cx : Ctx) : Nat → List Filter → Bytes → ErrSt → PR
  | 0, _, q, e => perr cx q .fuel e
  | f + 1, terms, q, e =>
    let op := next cx false q e
    let k := op.tok.kind
    if k == kA then andLoop cx f terms op.rest op.err
    else if k == cLP || k == cDash || k == cStar || k == kW || k == kQ then
      let m := matchF cx f op.cur op.err
      andLoop cx f (terms ++ [m.f]) m.rest m.err
    else if k == cRP || k == kO || k == 0 then ⟨finish .and terms, op.cur, op.err⟩
    else perr cx op.cur .unexpected op.err

/-- `p.match` -/
def matchF (cx : Ctx) : Nat → Bytes → ErrSt → PR
  | 0, q, e => perr cx q .fuel e
  | f + 1, start, e =>
    let t := next cx false start e
    let k := t.tok.kind
    if k == cLP then
      let x := exprF cx f t.rest t.err
      let op := next cx false x.rest x.err
      if op.tok.kind != cRP then perr cx op.cur .missingParen op.err
      else ⟨x.f, op.rest, op.err⟩
    else if k == cDash then
      let m := matchF cx f t.rest t.err
      ⟨.op .not [m.f], m.rest, m.err⟩
    else if k == cStar then ⟨.op .and [], t.rest, t.err⟩
    else if isWord k then
      let op := next cx false t.rest t.err
      if op.tok.kind != cColon then perr cx t.cur .expectedKV op.err
      else
        let v := next cx true op.rest op.err
        if isValue v.tok.kind then ⟨mkMatch t.tok.off t.tok.tok v.tok, v.rest, v.err⟩
        else if v.tok.kind == cLP then listLoop cx t.tok.off t.tok.tok (v.rest.length + 1) [] v.rest v.err
        else perr cx t.cur .expectedKV v.err
    else perr cx t.cur .expectedKVorSub t.err
end

/-- fuel that `parseFilter` hands to `expr` -/
def fuelFor (q : Bytes) : Nat := 5 * q.length + 6

/-- `parse.ParseFilter` -/
def parseFilter (cx : Ctx) (q : Bytes) : Except Err Filter :=
  let r := exprF cx (fuelFor q) q none
  match endCheck cx r.rest r.err with
  | some err => .error err
  | none => .ok r.f

/-- the walk of `benchproc.NewFilter`: the first semantic error in depth-first order -/
def checkFilter : Filter → Option Err
  | .nil => none
  | .op _ es => checkList es
  | .lit key _ off => checkKey key off
  | .re key _ off => checkKey key off
where
  checkKey (key : Bytes) (off : Int) : Option Err :=
    if key == kUnit then none
    else if key == kConfig then some ⟨off, .configInFilter⟩
    else if key.isEmpty then some ⟨off, .emptyKey⟩
    else none
  checkList : List Filter → Option Err
    | [] => none
    | x :: xs =>
      match checkFilter x with
      | some e => some e
      | none => checkList xs

/-- `benchproc.NewFilter` as far as acceptance goes -/
def newFilter (cx : Ctx) (q : Bytes) : Except Err Filter :=
  match parseFilter cx q with
  | .error e => .error e
  | .ok f =>
    match checkFilter f with
    | some e => .error e
    | none => .ok f

end Proc.ParseFilter
