/-
Model of benchproc/internal/parse/projection.go (ParseProjection, parseField) and of the
semantic rejections of benchproc.(*ProjectionParser).makeProjection.  Core Lean only.
-/
import Model.Proc.Tok

namespace Proc.ParseProj
open Proc.Tok

/-- parse.Field -/
structure Field where
  key : Bytes
  order : Bytes
  fixed : List Bytes
  keyOff : Int
  orderOff : Int
  deriving Repr, DecidableEq

structure FR where
  f : Field
  rest : Bytes
  err : ErrSt
  deriving Repr

def isWord (k : UInt8) : Bool := k == kW || k == kQ

/-- the `for` loop of a parenthesised fixed list in `parseField` -/
def fixedLoop (cx : Ctx) : Nat → Field → Bytes → ErrSt → FR
  | 0, f, q, e => ⟨f, [], recErr cx q .fuel e⟩
  | n + 1, f, q, e =>
    let t := next cx false q e
    if isWord t.tok.kind then fixedLoop cx n { f with fixed := f.fixed ++ [t.tok.tok] } t.rest t.err
    else if t.tok.kind == cRP then
      if f.fixed.isEmpty then ⟨f, [], recErr cx t.cur .nothingToMatch t.err⟩
      else ⟨f, t.rest, t.err⟩
    else ⟨f, [], recErr cx t.cur .missingParenProj t.err⟩

/-- `parseField` -/
def parseField (cx : Ctx) (q : Bytes) (e : ErrSt) : FR :=
  let f0 : Field := ⟨[], [], [], 0, 0⟩
  let key := next cx false q e
  if !isWord key.tok.kind then ⟨f0, [], recErr cx key.cur .expectedKey key.err⟩
  else
    let f : Field := ⟨key.tok.tok, oFirst, [], key.tok.off, key.tok.off + (key.tok.tok.length : Int)⟩
    let sep := next cx false key.rest key.err
    if sep.tok.kind != cAt then ⟨f, sep.cur, sep.err⟩
    else
      let order := next cx false sep.rest sep.err
      let f := { f with orderOff := order.tok.off }
      if isWord order.tok.kind then ⟨{ f with order := order.tok.tok }, order.rest, order.err⟩
      else if order.tok.kind == cLP then
        fixedLoop cx (order.rest.length + 1) { f with order := oFixed } order.rest order.err
      else ⟨f, [], recErr cx order.cur .expectedOrder order.err⟩

/-- the field loop of `ParseProjection` -/
def projLoop (cx : Ctx) : Nat → List Field → Bytes → ErrSt → List Field × Bytes × ErrSt
  | 0, fs, q, e => (fs, [], recErr cx q .fuel e)
  | n + 1, fs, q, e =>
    let t := next cx false q e
    if t.tok.kind == 0 then (fs, t.cur, t.err)
    else
      let q1 := if t.tok.kind == cComma && !fs.isEmpty then t.rest else t.cur
      let r := parseField cx q1 t.err
      projLoop cx n (fs ++ [r.f]) r.rest r.err

/-- `parse.ParseProjection` -/
def parseProjection (cx : Ctx) (q : Bytes) : Except Err (List Field) :=
  let (fs, rest, e) := projLoop cx (q.length + 1) [] q none
  match endCheck cx rest e with
  | some err => .error err
  | none => .ok fs

/-- `makeProjection`'s rejections for one field (order first, then key) -/
def checkField (f : Field) : Option Err :=
  let orderOK := f.order == oFixed || f.order == oFirst ||
    f.order == oAlpha || f.order == oNum
  if f.order == oFixed && f.fixed.isEmpty then some ⟨f.orderOff, .unknownOrder⟩   -- literal name "fixed" (147e6a6)
  else if !orderOK then some ⟨f.orderOff, .unknownOrder⟩
  else if f.key == kConfig then
    (if f.order == oFixed then some ⟨f.orderOff, .fixedConfig⟩ else none)
  else if f.key == kFullname then none
  else if f.key == kUnit then some ⟨f.keyOff, .unitInProj⟩
  else if f.key.isEmpty then some ⟨f.keyOff, .emptyKey⟩
  else none

def checkFields : List Field → Option Err
  | [] => none
  | f :: fs =>
    match checkField f with
    | some e => some e
    | none => checkFields fs

/-- `(*ProjectionParser).Parse` as far as acceptance goes -/
def parse (cx : Ctx) (q : Bytes) : Except Err (List Field) :=
  match parseProjection cx q with
  | .error e => .error e
  | .ok fs =>
    match checkFields fs with
    | some e => .error e
    | none => .ok fs

end Proc.ParseProj
