/-
Pure part of the C08/C09 drivers: decoding of the case line, running the model
(Model/Proc/Projection.lean) and the specification (Model/Spec/Keys.lean), rendering of the
`obs` and `spec` lines.
-/
import Model.Base.Proto
import Model.Proc.Projection
import Model.Spec.Keys

namespace Proc.ProjProto
open Proto Proc.Sort Proc.Projection
open Spec.Keys (Op)

def unhex (s : String) : Bytes := (Bytes.ofHex s).getD []

def decOrder (o : String) : Order :=
  if o == "a" then .alpha
  else if o == "n" then .num
  else if o == "x-" then .fixed []
  else if o.startsWith "x" then .fixed (((o.drop 1).toString.splitOn ".").map unhex)
  else .first

def decSpec (s : String) : Spec :=
  match s.splitOn "~" with
  | [k, o] => { key := unhex k, order := decOrder o }
  | _ => { key := [], order := .first }

def decRes (s : String) : Res :=
  match s.splitOn "|" with
  | [n, c, u] =>
    { name := unhex n,
      config := if c == "-" then [] else (c.splitOn ",").filterMap fun e =>
        match e.splitOn "/" with
        | [k, v, f] => some (unhex k, unhex v, f == "1")
        | _ => none,
      units := if u == "-" then [] else (u.splitOn "_").map unhex }
  | _ => { name := [], config := [], units := [] }

def decOp (s : String) : Option Op :=
  if s == "R" then some .residue
  else match s.splitOn ":" with
  | ["P", sp] => some (.parse false (if sp == "" then [] else (sp.splitOn "+").map decSpec))
  | ["U", sp] => some (.parse true (if sp == "" then [] else (sp.splitOn "+").map decSpec))
  | ["J", i, r] => some (.proj false i.toNat! (decRes r))
  | ["V", i, r] => some (.proj true i.toNat! (decRes r))
  | ["A", r] => some (.all (decRes r))
  | ["Q"] => some .query
  | _ => none

def decOps (s : String) : List Op :=
  if s == "-" || s == "" then [] else (s.splitOn ";").filterMap decOp

def hexNat (s : String) : Nat :=
  s.toList.foldl (fun acc c => acc * 16 + (Bytes.hexVal c).getD 0) 0

/-- The integer key of a non-NaN float64 bit pattern: monotone in the float, −0 ↦ 0. -/
def floatKey (bits : Nat) : Int :=
  let mag : Nat := bits % (2 ^ 63)
  if bits ≥ 2 ^ 63 then -(Int.ofNat mag) else Int.ofNat mag

def decPn (s : String) : List (Bytes × NumC) :=
  if s == "-" then [] else (s.splitOn ",").filterMap fun e =>
    match e.splitOn ":" with
    | [v, c] => some (unhex v, if c == "e" then .err else if c == "n" then .nan else .val (floatKey (hexNat c)))
    | _ => none

/-- The raw `pn=` table: value ↦ class string (`e`, `n`, or 16 hex digits of the float64 bits). -/
def decPnRaw (s : String) : List (Bytes × String) :=
  if s == "-" then [] else (s.splitOn ",").filterMap fun e =>
    match e.splitOn ":" with
    | [v, c] => some (unhex v, c)
    | _ => none

open Spec.ParseNum in
def implSNum (c : String) : SNum :=
  if c == "e" then .err else if c == "n" then .nan else ofBits (hexNat c)

open Spec.ParseNum in
/-- The specification's view of the reported parseNum results: for every value the class string
the implementation must report — its own where it is faithful to the specified exact value,
`want:<exact value>` otherwise — and the value the order is judged by. -/
def specPn (raw : List (Bytes × String)) : List (Bytes × String × SNum) :=
  raw.map fun (v, c) =>
    let (val, ok) := reconcile (parseNum v) (implSNum c)
    (v, if ok then c else "want:" ++ showSNum (parseNum v), val)

def showPn (l : List (Bytes × String)) : String :=
  if l.isEmpty then "-" else ",".intercalate (l.map fun (v, c) => v.toHex ++ ":" ++ c)

open Spec.ParseNum in
def specNumOf (tbl : List (Bytes × String × SNum)) (v : Bytes) : SNum :=
  match tbl.find? (·.1 == v) with
  | some e => e.2.2
  | none => parseNum v

def pnOf (tbl : List (Bytes × NumC)) (v : Bytes) : NumC :=
  match tbl.find? (·.1 == v) with
  | some e => e.2
  | none => .err

/-- The hash used by the driver: deliberately weak (many collisions, a few buckets). The
observables must not depend on it (`C08.key_eq_iff`). -/
def weakHash (row : List Bytes) : UInt64 :=
  UInt64.ofNat ((row.foldl (fun a b => a + b.length) row.length) % 3)

/-! ### Running the model -/

structure Run where
  world : World
  streams : List (List Nat)     -- per projection: the keys returned, in order
  perr : List String
  deriving Inhabited

def errTag : ParseErr → String
  | .fixedConfig => "fixedcfg"
  | .unitKey => "unit"
  | .emptyKey => "empty"
  | .unknownOrder => "unknownorder"

def addKeys (streams : List (List Nat)) (i : Nat) (ks : List Nat) : List (List Nat) :=
  streams.set i ((streams.getD i []) ++ ks)

def isUnitProj (w : World) (i : Nat) : Bool :=
  match w.projs[i]? with
  | some p => p.unitIdx.isSome
  | none => false

def stepOne (h : List Bytes → UInt64) (st : Run) (values : Bool) (i : Nat) (r : Res) : Run :=
  if i < st.world.projs.length then
    if values then
      let (w, ks) := st.world.projectValues h i r
      { st with world := w, streams := addKeys st.streams i ks }
    else
      let (w, k) := st.world.project h i r
      { st with world := w, streams := addKeys st.streams i [k] }
  else st

def step (h : List Bytes → UInt64) (st : Run) : Op → Run
  | .parse u specs =>
    match st.world.parse specs u with
    | (w, none) => { st with world := w, streams := st.streams ++ [[]], perr := st.perr ++ ["ok"] }
    | (w, some e) => { st with world := w, perr := st.perr ++ [errTag e] }
  | .residue => { st with world := st.world.residue, streams := st.streams ++ [[]] }
  | .proj v i r => stepOne h st v i r
  | .all r =>
    (List.range st.world.projs.length).foldl
      (fun st i => stepOne h st (isUnitProj st.world i) i r) st
  | .query => st

def run (h : List Bytes → UInt64) (ops : List Op) : Run :=
  ops.foldl (step h) { world := World.new, streams := [], perr := [] }

/-! ### Rendering -/

def showNats (l : List Nat) : String :=
  if l.isEmpty then "-" else ".".intercalate (l.map toString)

def dedupNat (l : List Nat) : List Nat :=
  l.foldl (fun acc x => if acc.contains x then acc else acc ++ [x]) []

def bit (b : Bool) : Char := if b then '1' else '0'

def maskOf (flat sel : List Field) : String :=
  if flat.isEmpty then "e" else String.ofList (flat.map fun f => bit (sel.contains f))

def pairsUpTo (n : Nat) : List (Nat × Nat) :=
  (List.range (min n 7)).flatMap fun a => ((List.range (min n 7)).filter (a < ·)).map fun b => (a, b)

def renderProj (pn : Bytes → NumC) (id : String) (tag : String) (pi : Nat) (p : Proj) (stream : List Nat) : String :=
  let distinct := dedupNat stream       -- node ids in order of first occurrence in the stream
  let n := distinct.length
  let ids := stream.map fun k => distinct.idxOf k
  let flat := p.flat
  let get := if n == 0 then "-" else
    ",".intercalate (distinct.map fun k => ".".intercalate (flat.map fun f => (p.get k f).toHex))
  let str := if n == 0 then "-" else ",".intercalate (distinct.map fun k => (p.keyString k).toHex)
  let less := if n == 0 then "-" else
    ".".intercalate (distinct.map fun a => String.ofList (distinct.map fun b => bit (p.less pn a b)))
  let sorts := if n == 0 then "-" else showNats ((p.sortKeys pn distinct).map fun k => distinct.idxOf k)
  let ns := maskOf flat (p.nonSingular distinct)
  let nsr := maskOf flat (p.nonSingular distinct.reverse)
  let pairs := (pairsUpTo n).map fun (a, b) => maskOf flat (p.nonSingular [distinct.getD a 0, distinct.getD b 0])
  let nsp := if pairs.isEmpty then "-" else ".".intercalate pairs
  let first := distinct.take 6
  let eq := if n == 0 then "-" else
    ".".intercalate (first.map fun a => String.ofList (first.map fun b => bit (equalRow (p.vals a) (p.vals b))))
  let strv := if n == 0 then "-" else ",".intercalate (distinct.map fun k => (p.keyStringValues k).toHex)
  s!"obs {id} {tag}p={pi} fields={showHexList p.fieldNames} flat={showHexList (flat.map (·.name))} n={n} ids={showNats ids} get={get} str={str} less={less} sorts={sorts} ns={ns} nsr={nsr} nsp={nsp} eq={eq} strv={strv}"

/-- The model's observables after `ops` (tag "" = end of the scenario, "q=<i> " = a query). -/
def obsRender (pn : Bytes → NumC) (id : String) (tag : String) (ops : List Op) : List String :=
  let st := run weakHash ops
  let pe := if st.perr.isEmpty then "-" else ".".intercalate st.perr
  s!"obs {id} {tag}parse={pe} np={st.world.projs.length}" ::
    (st.world.projs.zipIdx.map fun (p, i) => renderProj pn id tag i p (st.streams.getD i []))

/-- Positions of the query operations. -/
def queryPoints (ops : List Op) : List Nat :=
  ops.zipIdx.filterMap fun (op, i) => match op with
    | .query => some i
    | _ => none

def obsLines (pn : Bytes → NumC) (raw : List (Bytes × String)) (id : String) (ops : List Op) : List String :=
  s!"obs {id} pn={showPn ((specPn raw).map fun e => (e.1, e.2.1))}" ::
    (((queryPoints ops).flatMap fun i => obsRender pn id s!"q={i} " (ops.take i)) ++ obsRender pn id "" ops)

/-! ### The specification's lines -/

open Spec.Keys in
def specProj (pn : Bytes → Spec.ParseNum.SNum) (id : String) (tag : String) (specific : List Bytes) (pi : Nat) (p : PSpec)
    (obs : List Obs) : String :=
  let cols := columns specific p obs       -- fields also grow on results that are not interned
  let tuples := (obs.filter (·.interned)).map fun o => cols.map fun c => c.value specific o
  let distinct := dedupTuples tuples
  let n := distinct.length
  let ids := tuples.map fun t => firstIndex distinct t
  let get := if n == 0 then "-" else
    ",".intercalate (distinct.map fun t => ".".intercalate (t.map Bytes.toHex))
  -- per column: its order and the values observed in it, in observation order
  let colInfo := cols.zipIdx.map fun (c, j) => (c.order, tuples.map fun t => t.getD j [])
  let lt := fun (a b : Nat) => tupleLess pn colInfo (distinct.getD a []) (distinct.getD b [])
  let idx := List.range n
  let less := if n == 0 then "-" else
    ".".intercalate (idx.map fun a => String.ofList (idx.map fun b => bit (lt a b)))
  let sorts := if n == 0 then "-" else showNats (sortIdx lt idx)
  let pairs := (pairsUpTo n).map fun (a, b) =>
    if cols.isEmpty then "e" else
    String.ofList ((List.range cols.length).map fun j =>
      bit ((distinct.getD a []).getD j [] != (distinct.getD b []).getD j []))
  let nsp := if pairs.isEmpty then "-" else ".".intercalate pairs
  let str := if n == 0 then "-" else ",".intercalate (distinct.map fun t => (tupleString true cols t).toHex)
  let strv := if n == 0 then "-" else ",".intercalate (distinct.map fun t => (tupleString false cols t).toHex)
  s!"spec {id} {tag}p={pi} flat={showHexList (cols.map (·.name))} n={n} ids={showNats ids} get={get} less={less} sorts={sorts} nsp={nsp} str={str} strv={strv}"

open Spec.Keys in
def specLines (raw : List (Bytes × String)) (id : String) (ops : List Op) : List String :=
  let tbl := specPn raw
  let pn := specNumOf tbl
  let specific := specificKeys ops
  let ps := projections ops
  -- the specification is stateless: what a query sees is the specification of the prefix, with the
  -- keys excluded that ALL accepted expressions of the scenario name (all parsing precedes projecting)
  let atQuery := (queryPoints ops).flatMap fun q =>
    let pre := ops.take q
    let psq := projections pre
    psq.zipIdx.map fun (p, i) => specProj pn id s!"q={q} " specific i p (observations pre psq i)
  let perProj := atQuery ++ ps.zipIdx.map fun (p, i) => specProj pn id "" specific i p (observations ops ps i)
  let alls := ops.filterMap fun
    | .all r => if r.units.isEmpty then none else some r
    | _ => none
  let anyUnit := ps.any (·.unit)
  let same := fun (r r' : Res) => sameInfo specific r r' && (!anyUnit || r.units.head? == r'.units.head?)
  let ll := alls.zipIdx.map fun (r, i) => ((alls.take (i + 1)).findIdx fun r' => same r' r)
  let hasResidue := ops.any fun
    | .residue => true
    | _ => false
  s!"spec {id} pn={showPn (tbl.map fun e => (e.1, e.2.1))}" ::
    (perProj ++ (if alls.isEmpty || !hasResidue then [] else [s!"spec {id} ll={showNats ll}"]))

/-- The strict-total-order clause (`C09.less_strict_total`, `key_less_strict_total`) judged on the
implementation's `Key.Less` matrix over distinct keys: echo the matrix if it is irreflexive,
asymmetric, total and transitive, name a violating pair/triple otherwise. -/
def judgeSto (m : String) : String :=
  if m == "-" then m else
  let rows := (m.splitOn ".").map fun r => r.toList.map (· == '1')
  let n := rows.length
  let at_ := fun (i j : Nat) => (rows.getD i []).getD j false
  let idx := List.range n
  let bad : Option String :=
    (idx.findSome? fun i => if at_ i i then some s!"irreflexive({i})" else none) <|>
    (idx.findSome? fun i => idx.findSome? fun j =>
      if i < j && at_ i j && at_ j i then some s!"asymmetric({i},{j})"
      else if i < j && !at_ i j && !at_ j i then some s!"total({i},{j})" else none) <|>
    (idx.findSome? fun i => idx.findSome? fun j => idx.findSome? fun k =>
      if at_ i j && at_ j k && !at_ i k then some s!"transitive({i},{j},{k})" else none)
  match bad with
  | some b => "VIOLATED:" ++ b
  | none => m

/-- All lines of the driver for one line of the harness output. -/
def handle (l : Line) : List String :=
  if l.kind == "sobs" then
    match l.get? "sto" with
    | some m =>
      let tag := match l.get? "q" with
        | some q => s!"q={q} "
        | none => ""
      [s!"spec {l.id} {tag}p={l.getD "p" "0"} sto={judgeSto m}"]
    | none => []
  else
  if l.kind != "case" then [] else
  -- the big first-observation case: n distinct values of one default-ordered field; key i is the
  -- i-th observed value, so Less(kᵢ, kⱼ) ⇔ i < j and the sorted keys run from 0 to n−1
  if let some n := l.nat? "big" then
    let pairs := ((l.getD "pairs" "").splitOn ",").filterMap fun pr =>
      match pr.splitOn "-" with
      | [a, b] => some (a.toNat!, b.toNat!)
      | _ => none
    [s!"spec {l.id} probe={String.ofList (pairs.map fun (a, b) => bit (a < b))} first=0 second=1 last={n - 1}"]
  else
  let ops := decOps (l.getD "ops" "-")
  let pn := pnOf (decPn (l.getD "pn" "-"))
  let raw := decPnRaw (l.getD "pn" "-")
  obsLines pn raw l.id ops ++ (if l.getD "s" "0" == "1" then specLines raw l.id ops else [])

end Proc.ProjProto
