/-
Heap model of benchproc/filter.go's evaluator, to speak about ALIASING.

`Proc.FilterEval` is functional: a mask is a value. In the Go code a `mask` is a slice that is
updated in place (`m.not()`, `m.and(m2)`, `m.or(m2)`) and handed around by reference: a closure
returns the very slice a sub-closure returned (`m = m2`; `return m, false` after `m.not()`).
Here masks live in a heap (a list of cells, address = index, allocation = append); a filterFn
returns the ADDRESS of its mask; `not/and/or` overwrite the cell at the accumulator's address.
The only allocation site is `newMask` in the `.unit` leaf, and a compiled filter keeps no mask
between calls (the closures capture the tree node, the extractor and the sub-closures only), so
the evaluator's only inputs are the tree, the result and the heap.
-/
import Model.Proc.FilterEval

namespace Proc.FilterHeap
open Proc.FilterEval Proc.Extract

abbrev Heap := List Mask
/-- what a filterFn returns: the address of its mask (`none` = nil mask) and the boolean -/
abbrev HOut := Option Nat × Bool

/-- overwrite cell `a` with `f (old contents)` — an in-place update through a slice header -/
def updAt (f : Mask → Mask) : Heap → Nat → Heap
  | [], _ => []
  | m :: h, 0 => f m :: h
  | m :: h, a + 1 => m :: updAt f h a

def cell (h : Heap) (a : Nat) : Mask := h.getD a []

mutual
def evalH (re : ReOracle) (res : Res) : Filter → Heap → HOut × Heap
  | .mtch key _ mt, h =>
    if key == dotUnit then
      -- m := newMask(len(res.Values)); for … { m.set(i) }; return m, false
      ((some h.length, false), h ++ [unitLoop re mt res.values 0 (newMask res.values.length)])
    else ((none, mt.holds re (keyValue key res)), h)
  | .not e, h =>
    match evalH re res e h with
    | ((none, x), h') => ((none, !x), h')
    | ((some a, _), h') => ((some a, false), updAt maskNot h' a)        -- m.not(); return m, false
  | .and es, h => andH re res es none h
  | .or es, h => orH re res es none h
/-- the AND closure's loop; the accumulator `var m mask` is an address -/
def andH (re : ReOracle) (res : Res) : List Filter → Option Nat → Heap → HOut × Heap
  | [], m, h => ((m, true), h)
  | e :: es, m, h =>
    match evalH re res e h with
    | ((none, x), h') => if !x then ((none, false), h') else andH re res es m h'
    | ((some a2, _), h') =>
      match m with
      | none => andH re res es (some a2) h'                               -- m = m2 (same slice)
      | some a => andH re res es (some a) (updAt (fun ma => maskAnd ma (cell h' a2)) h' a)   -- m.and(m2)
def orH (re : ReOracle) (res : Res) : List Filter → Option Nat → Heap → HOut × Heap
  | [], m, h => ((m, false), h)
  | e :: es, m, h =>
    match evalH re res e h with
    | ((none, x), h') => if x then ((none, true), h') else orH re res es m h'
    | ((some a2, _), h') =>
      match m with
      | none => orH re res es (some a2) h'
      | some a => orH re res es (some a) (updAt (fun ma => maskOr ma (cell h' a2)) h' a)
end

/-- `Filter.Match` in the heap model: the `Match` value holds the address -/
structure HMatch where
  n : Nat
  addr : Option Nat
  x : Bool

def matchH (re : ReOracle) (e : Filter) (res : Res) (h : Heap) : HMatch × Heap :=
  let r := evalH re res e h
  ({ n := res.values.length, addr := r.1.1, x := r.1.2 }, r.2)

/-- reading a heap `Match` at some later time gives the functional `Match` of its current cell -/
def HMatch.read (m : HMatch) (h : Heap) : Match :=
  { n := m.n, m := m.addr.map (cell h), x := m.x }

end Proc.FilterHeap
