/-
Model of benchproc/projection.go (ProjectionParser, Projection, makeProjection, populateRow,
internRow, ProjectValues, Residue), benchproc/key.go (Key.Get, Key.String) and
benchproc/nonsingular.go.

* `Key` = index of the key node in allocation order (pointer identity is not modelled).
* The hash (`maphash` with a per-process seed) is a parameter `h : List Bytes → UInt64`.
* Filters implied by fixed orders are not part of this model (property C06).
* The parser model takes projection expressions in parsed form (`Spec` = parse.Field).
-/
import Model.Proc.Extract
import Model.Proc.Sort

namespace Proc.Projection
open Proc.Sort Proc.Extract

/-- What projections see of a `benchfmt.Result`. Config entries are (key, value, File) in slot
order. -/
structure Res where
  name : Bytes
  config : List (Bytes × Bytes × Bool)
  units : List Bytes
  deriving Repr, DecidableEq, Inhabited

def Res.view (r : Res) : ResView :=
  { name := r.name, config := r.config.map fun c => (c.1, c.2.1) }

/-- `parse.Field` (offsets dropped). -/
structure Spec where
  key : Bytes
  order : Order
  deriving Repr, DecidableEq, Inhabited

/-- Entry of `root.Sub`: a plain field, or a tuple field (`.config`) with its sub-fields. -/
inductive Top
  | leaf (f : Field)
  | group (name : Bytes) (subs : List Field)
  deriving Repr, DecidableEq, Inhabited

/-- One closure of `Projection.project`. -/
inductive Part
  | config (pos : Nat) (order : Order)   -- `pos`: position of its group in `root.Sub`; `seen` = the group's sub-fields
  | fullname (idx : Nat)
  | key (k : Bytes) (idx : Nat)
  deriving Repr, DecidableEq, Inhabited

/-- `keyNode` together with the hash bucket it was filed under. -/
structure Node where
  hash : UInt64
  vals : List Bytes
  deriving Repr, DecidableEq, Inhabited

structure Proj where
  top : List Top            -- root.Sub
  nFields : Nat
  parts : List Part         -- project
  unitIdx : Option Nat      -- unitField.idx
  row : List Bytes
  nodes : List Node         -- all key nodes in allocation order; bucket of hash v = the nodes with hash v, in this order
  deriving Repr, DecidableEq, Inhabited

def newProjection : Proj :=
  { top := [], nFields := 0, parts := [], unitIdx := none, row := [], nodes := [] }

def Top.flat : Top → List Field
  | .leaf f => [f]
  | .group _ subs => subs

/-- `FlattenedFields` -/
def Proj.flat (p : Proj) : List Field := p.top.flatMap Top.flat

def Top.name : Top → Bytes
  | .leaf f => f.name
  | .group n _ => n

/-- names of `Fields()` -/
def Proj.fieldNames (p : Proj) : List Bytes := p.top.map Top.name

/-- `initField`: the order map exists exactly for `first`. -/
def mkField (name : Bytes) (idx : Nat) (o : Order) : Field :=
  { name := name, idx := idx, order := o, ranks := [] }

/-- `addField(root, name)` followed by `initField`. -/
def Proj.addRootField (p : Proj) (name : Bytes) (o : Order) : Proj × Nat :=
  ({ p with top := p.top ++ [.leaf (mkField name p.nFields o)],
            nFields := p.nFields + 1, row := p.row ++ [[]] }, p.nFields)

/-- `addGroup(root, name)`; returns the position of the group in `root.Sub`. -/
def Proj.addGroup (p : Proj) (name : Bytes) : Proj × Nat :=
  ({ p with top := p.top ++ [.group name []] }, p.top.length)

def addSubAt : List Top → Nat → Field → List Top
  | [], _, _ => []
  | .group n subs :: rest, 0, f => .group n (subs ++ [f]) :: rest
  | t :: rest, 0, _ => t :: rest
  | t :: rest, pos + 1, f => t :: addSubAt rest pos f

/-- The field a `.config` closure creates for a new file key: `initField`, then
`if field.order != nil && len(s.keys) > 0 { field.order[""] = 0 }` (keys interned before the
field existed have "" there, so "" is its first observed value). -/
def mkSubField (name : Bytes) (idx : Nat) (o : Order) (haveKeys : Bool) : Field :=
  match o with
  | .first => { name := name, idx := idx, order := o, ranks := if haveKeys then [([], 0)] else [] }
  | _ => mkField name idx o

/-- `addField(group, name)` followed by `initField` (and the ""-rank rule), for the group at `pos`. -/
def Proj.addSubField (p : Proj) (pos : Nat) (name : Bytes) (o : Order) : Proj × Nat :=
  ({ p with top := addSubAt p.top pos (mkSubField name p.nFields o (!p.nodes.isEmpty)),
            nFields := p.nFields + 1, row := p.row ++ [[]] }, p.nFields)

def groupSubs (top : List Top) (pos : Nat) : List Field :=
  match top[pos]? with
  | some (.group _ subs) => subs
  | _ => []

/-! ### Parser -/

structure Parser where
  configKeys : List Bytes          -- keys of the map[string]bool (all values true)
  fullnameKeys : List Bytes
  haveConfig : Bool
  haveFullname : Bool
  fullExt : Option (List Bytes)    -- the exclusion list the lazily built extractor was made from
  deriving Repr, DecidableEq, Inhabited

def Parser.new : Parser :=
  { configKeys := [], fullnameKeys := [], haveConfig := false, haveFullname := false, fullExt := none }

inductive ParseErr
  | fixedConfig   -- "fixed order not allowed for .config"
  | unitKey       -- ".unit is only allowed in filters"
  | emptyKey      -- newExtractor: "key must not be empty"
  | unknownOrder  -- the literal order name "fixed" (a fixed order without a value list)
  deriving Repr, DecidableEq, Inhabited

def isFixed : Order → Bool
  | .fixed _ => true
  | _ => false

/-- `makeProjection`. The parser state is returned also on error: side effects made before the
error stay (as in the code). -/
def makeProjection (p : Parser) (s : Proj) (sp : Spec) : Parser × Except ParseErr Proj :=
  if sp.order == .fixed [] then (p, .error .unknownOrder)
  else if sp.key == dotConfig then
    if isFixed sp.order then (p, .error .fixedConfig)
    else
      let p := { p with haveConfig := true }
      let (s, pos) := s.addGroup dotConfig
      (p, .ok { s with parts := s.parts ++ [.config pos sp.order] })
  else if sp.key == dotFullname then
    let p := { p with haveFullname := true }
    let (s, idx) := s.addRootField dotFullname sp.order
    (p, .ok { s with parts := s.parts ++ [.fullname idx] })
  else if sp.key == dotUnit then (p, .error .unitKey)
  else
    let p :=
      if sp.key == dotName || sp.key.head? == some Fmt.Name.slash then
        { p with fullnameKeys := p.fullnameKeys ++ [sp.key] }
      else if p.configKeys.contains sp.key then p
      else { p with configKeys := p.configKeys ++ [sp.key] }
    if sp.key.isEmpty then (p, .error .emptyKey)
    else
      let (s, idx) := s.addRootField sp.key sp.order
      (p, .ok { s with parts := s.parts ++ [.key sp.key idx] })

/-- The loop of `Parse` over the parts of one expression. -/
def parseParts (p : Parser) (s : Proj) : List Spec → Parser × Except ParseErr Proj
  | [] => (p, .ok s)
  | sp :: rest =>
    match makeProjection p s sp with
    | (p, .ok s) => parseParts p s rest
    | (p, .error e) => (p, .error e)

/-- `ProjectionParser.Parse` on a parsed expression: the parts are walked by `parseParts`; when one
of them is rejected the parser state saved before the walk (`configKeys`, `len(fullnameKeys)`,
`haveConfig`, `haveFullname`) is restored, so a rejected expression leaves no trace. -/
def Parser.parse (p : Parser) (specs : List Spec) : Parser × Except ParseErr Proj :=
  match parseParts p newProjection specs with
  | (p', .ok s) => (p', .ok s)
  | (_, .error e) => (p, .error e)

/-- `ProjectionParser.ParseWithUnit`. -/
def Parser.parseWithUnit (p : Parser) (specs : List Spec) : Parser × Except ParseErr Proj :=
  match p.parse specs with
  | (p, .ok s) =>
    let (s, idx) := s.addRootField dotUnit .first
    (p, .ok { s with unitIdx := some idx })
  | r => r

/-- A `p.makeProjection(s, "", field)` call of `Residue` (its error result is ignored). -/
def residueStep (st : Parser × Proj) (sp : Spec) : Parser × Proj :=
  match makeProjection st.1 st.2 sp with
  | (p, .ok s) => (p, s)
  | (p, .error _) => (p, st.2)

/-- `ProjectionParser.Residue`. -/
def Parser.residue (p : Parser) : Parser × Proj :=
  let st := (p, newProjection)
  let st := if !st.1.haveConfig then residueStep st { key := dotConfig, order := .first } else st
  if !st.1.haveFullname then residueStep st { key := dotFullname, order := .first } else st

/-! ### Projection of a result -/

/-- What the projection closures read from the parser when a result is projected. -/
structure Env where
  configKeys : List Bytes
  exclude : List Bytes     -- the list `p.fullExtractor` was built from
  deriving Repr, DecidableEq, Inhabited

/-- The body of the `.config` closure for one config entry. -/
def configStep (env : Env) (pos : Nat) (o : Order) (p : Proj) (cfg : Bytes × Bytes × Bool) : Proj :=
  if !cfg.2.2 then p
  else
    match (groupSubs p.top pos).find? (·.name == cfg.1) with
    | some f => { p with row := p.row.set f.idx cfg.2.1 }
    | none =>
      if env.configKeys.contains cfg.1 then p
      else
        let (p, idx) := p.addSubField pos cfg.1 o
        { p with row := p.row.set idx cfg.2.1 }

def runPart (env : Env) (r : Res) (p : Proj) : Part → Proj
  | .config pos o => r.config.foldl (configStep env pos o) p
  | .fullname idx => { p with row := p.row.set idx (fullNameExcluding env.exclude r.name) }
  | .key k idx =>
    let v := match extract k r.view with
      | .ok v => v
      | .error _ => []
    { p with row := p.row.set idx v }

/-- `populateRow` -/
def Proj.populateRow (env : Env) (p : Proj) (r : Res) : Proj :=
  let p := { p with row := p.row.map fun _ => [] }
  p.parts.foldl (runPart env r) p

/-- The trimming loop of `internRow`: drop trailing empty strings. -/
def trim : List Bytes → List Bytes
  | [] => []
  | x :: xs =>
    match trim xs with
    | [] => if x.isEmpty then [] else [x]
    | t => x :: t

/-- `keyNode.equalRow` -/
def equalRow (vals row : List Bytes) : Bool :=
  if vals.length != row.length then false
  else (vals.zip row).all fun (a, b) => a == b

/-- Scan of the bucket `p.keys[hash]`: index (in allocation order) of the first node filed
under `hv` whose values equal `row`. -/
def findNode : List Node → UInt64 → List Bytes → Nat → Option Nat
  | [], _, _, _ => none
  | n :: ns, hv, row, i =>
    if n.hash == hv && equalRow n.vals row then some i else findNode ns hv row (i + 1)

/-- The "update observation orders" loop body for one flattened field. -/
def observeField (row : List Bytes) (f : Field) : Field :=
  match f.order with
  | .first => { f with ranks := RankMap.observe f.ranks (getVal row f.idx) }
  | _ => f

def Top.mapFields (g : Field → Field) : Top → Top
  | .leaf f => .leaf (g f)
  | .group n subs => .group n (subs.map g)

/-- `internRow` -/
def Proj.internRow (h : List Bytes → UInt64) (p : Proj) : Proj × Nat :=
  let row := trim p.row
  let hv := h row
  match findNode p.nodes hv row 0 with
  | some k => (p, k)
  | none =>
    ({ p with top := p.top.map (Top.mapFields (observeField row)),
              nodes := p.nodes ++ [{ hash := hv, vals := row }] }, p.nodes.length)

/-- `Projection.Project` -/
def Proj.project (h : List Bytes → UInt64) (env : Env) (p : Proj) (r : Res) : Proj × Nat :=
  (p.populateRow env r).internRow h

def projectUnits (h : List Bytes → UInt64) (ui : Nat) : Proj → List Bytes → Proj × List Nat
  | p, [] => (p, [])
  | p, u :: us =>
    let (p, k) := ({ p with row := p.row.set ui u }).internRow h
    let (p, ks) := projectUnits h ui p us
    (p, k :: ks)

/-- `Projection.ProjectValues` -/
def Proj.projectValues (h : List Bytes → UInt64) (env : Env) (p : Proj) (r : Res) : Proj × List Nat :=
  let p := p.populateRow env r
  match p.unitIdx with
  | none =>
    let (p, k) := p.internRow h      -- called even when there are no values
    (p, r.units.map fun _ => k)
  | some ui => projectUnits h ui p r.units

/-! ### Keys -/

def Proj.vals (p : Proj) (k : Nat) : List Bytes :=
  match p.nodes[k]? with
  | some n => n.vals
  | none => []

/-- `Key.Get` -/
def Proj.get (p : Proj) (k : Nat) (f : Field) : Bytes := getVal (p.vals k) f.idx

def colon : UInt8 := 58
def space : UInt8 := 32

/-- `Key.String` -/
def Proj.keyString (p : Proj) (k : Nat) : Bytes :=
  let vals := p.vals k
  let pieces := p.flat.filterMap fun f =>
    if f.idx ≥ vals.length then none
    else
      let v := getVal vals f.idx
      if v.isEmpty then none else some (f.name ++ [colon] ++ v)
  match pieces with
  | [] => []
  | x :: xs => xs.foldl (fun acc y => acc ++ [space] ++ y) x

/-- `Key.StringValues` (`Key.string(false)`): the non-empty values in flattened order, separated by
blanks. -/
def Proj.keyStringValues (p : Proj) (k : Nat) : Bytes :=
  let vals := p.vals k
  let pieces := p.flat.filterMap fun f =>
    if f.idx ≥ vals.length then none
    else
      let v := getVal vals f.idx
      if v.isEmpty then none else some v
  match pieces with
  | [] => []
  | x :: xs => xs.foldl (fun acc y => acc ++ [space] ++ y) x

/-- `Key.Less` -/
def Proj.less (pn : Bytes → NumC) (p : Proj) (a b : Nat) : Bool :=
  Sort.less pn p.flat (p.vals a) (p.vals b)

/-- `SortKeys` (reference sort, see `Sort.sortBy`). -/
def Proj.sortKeys (pn : Bytes → NumC) (p : Proj) (ks : List Nat) : List Nat :=
  sortBy (p.less pn) ks

/-- `NonSingularFields` -/
def Proj.nonSingular (p : Proj) (keys : List Nat) : List Field :=
  match keys with
  | [] => []
  | [_] => []
  | k0 :: rest => p.flat.filter fun f => rest.any fun k => p.get k f != p.get k0 f

/-! ### A parser with its projections (the shared mutable state) -/

structure World where
  parser : Parser
  projs : List Proj
  deriving Repr, Inhabited

def World.new : World := { parser := Parser.new, projs := [] }

def hasFullname (p : Proj) : Bool :=
  p.parts.any fun
    | .fullname _ => true
    | _ => false

/-- The environment a projection's closures see now; building `p.fullExtractor` on first use. -/
def World.env (w : World) (i : Nat) : World × Env :=
  let uses := match w.projs[i]? with
    | some p => hasFullname p
    | none => false
  if uses then
    let ex := w.parser.fullExt.getD w.parser.fullnameKeys
    ({ w with parser := { w.parser with fullExt := some ex } },
     { configKeys := w.parser.configKeys, exclude := ex })
  else (w, { configKeys := w.parser.configKeys, exclude := [] })

def World.parse (w : World) (specs : List Spec) (withUnit : Bool) : World × Option ParseErr :=
  match (if withUnit then w.parser.parseWithUnit specs else w.parser.parse specs) with
  | (p, .ok s) => ({ parser := p, projs := w.projs ++ [s] }, none)
  | (p, .error e) => ({ w with parser := p }, some e)

def World.residue (w : World) : World :=
  let (p, s) := w.parser.residue
  { parser := p, projs := w.projs ++ [s] }

def World.project (h : List Bytes → UInt64) (w : World) (i : Nat) (r : Res) : World × Nat :=
  let (w, env) := w.env i
  match w.projs[i]? with
  | some p =>
    let (p, k) := p.project h env r
    ({ w with projs := w.projs.set i p }, k)
  | none => (w, 0)

def World.projectValues (h : List Bytes → UInt64) (w : World) (i : Nat) (r : Res) : World × List Nat :=
  let (w, env) := w.env i
  match w.projs[i]? with
  | some p =>
    let (p, ks) := p.projectValues h env r
    ({ w with projs := w.projs.set i p }, ks)
  | none => (w, [])

end Proc.Projection
