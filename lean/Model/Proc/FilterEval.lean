/-
Model of benchproc/filter.go (NewFilter's walk, filterOp, mask helpers, Match.All/Any/Test/Apply)
and of the filter part of benchproc/projection.go (Parse with a fixed-order value list).

Conventions
* a `filterFn` of the Go code is a function `Res → Out`, `Out = Option Mask × Bool`:
  `none` is the nil mask ("whole-result boolean in the second component"), `some m` a non-nil
  mask (possibly of length 0 when the result has no values: `make([]uint32, 0)` is not nil).
* `Mask = List (BitVec 32)`; the in-place updates `m.and(m2)`, `m.or(m2)`, `m.not()` of the Go
  code become functional updates. Every `.unit` leaf allocates a fresh mask per call, therefore no
  two masks alias in the Go code (observed by the harness: repeated Match calls, an older Match
  stays valid after a later one).
* Regular expressions are an oracle `re : id → value → Bool` (Go's regexp is stdlib).
* key extraction is `Proc.Extract.extract` (property C05).
-/
import Model.Proc.Extract

namespace Proc.FilterEval
open Proc.Extract

abbrev Word := BitVec 32
abbrev Mask := List Word

/-- One measurement: base unit, unit as written (empty unless rescaled), and a payload that
stands for everything else (`Value`, `OrigValue`); `Apply` moves measurements around unchanged. -/
structure Value where
  unit : Bytes
  origUnit : Bytes
  payload : Nat
  deriving DecidableEq, Repr

structure Res where
  name : Bytes
  config : List (Bytes × Bytes)
  values : List Value

def Res.view (r : Res) : ResView := { name := r.name, config := r.config }

/-- `parse.FilterMatch`'s matcher: literal or regular expression (index into the oracle). -/
inductive Matcher
  | lit (s : Bytes)
  | re (id : Nat)
  deriving Repr

/-- `parse.Filter` trees as `ParseFilter` builds them (`OpNot` has exactly one child). -/
inductive Filter
  | and (es : List Filter)
  | or (es : List Filter)
  | not (e : Filter)
  | mtch (key : Bytes) (off : Nat) (m : Matcher)

abbrev ReOracle := Nat → Bytes → Bool

/-- `FilterMatch.Match` / `MatchString`. -/
def Matcher.holds (re : ReOracle) : Matcher → Bytes → Bool
  | .lit s, v => s == v
  | .re id, v => re id v

/-! ### mask helpers (filter.go:184-210) -/

/-- `newMask(n)`: `make([]uint32, (n+31)/32)` -/
def newMask (n : Nat) : Mask := List.replicate ((n + 31) / 32) 0#32

def modifyAt (f : Word → Word) : Mask → Nat → Mask
  | [], _ => []
  | x :: xs, 0 => f x :: xs
  | x :: xs, k + 1 => x :: modifyAt f xs k

/-- `m[i/32] |= 1 << (i % 32)` -/
def maskSet (m : Mask) (i : Nat) : Mask := modifyAt (· ||| (1#32 <<< (i % 32))) m (i / 32)

/-- `for i := range m { m[i] &= n[i] }` (all masks of one result have the same length) -/
def maskAnd (m n : Mask) : Mask := List.zipWith (· &&& ·) m n
/-- `for i := range m { m[i] |= n[i] }` -/
def maskOr (m n : Mask) : Mask := List.zipWith (· ||| ·) m n
/-- `for i := range m { m[i] = ^m[i] }` — flips all 32 bits of every word, also those ≥ n -/
def maskNot (m : Mask) : Mask := m.map (~~~ ·)

abbrev Out := Option Mask × Bool
abbrev FilterFn := Res → Out

/-! ### leaves (filter.go:58-89) -/

/-- the condition of the `.unit` loop: `q.MatchString(Unit) || (OrigUnit != "" && q.MatchString(OrigUnit))` -/
def unitHolds (re : ReOracle) (mt : Matcher) (v : Value) : Bool :=
  mt.holds re v.unit || (v.origUnit != [] && mt.holds re v.origUnit)

/-- `for i := range res.Values { if … { m.set(i) } }` -/
def unitLoop (re : ReOracle) (mt : Matcher) : List Value → Nat → Mask → Mask
  | [], _, m => m
  | v :: vs, i, m => unitLoop re mt vs (i + 1) (if unitHolds re mt v then maskSet m i else m)

def unitFn (re : ReOracle) (mt : Matcher) : FilterFn := fun res =>
  (some (unitLoop re mt res.values 0 (newMask res.values.length)), false)

/-- the value an extractor built by `newExtractor(key)` returns (construction errors are
handled by `walk`; `nil` is the empty string) -/
def keyValue (key : Bytes) (res : Res) : Bytes :=
  match extract key res.view with
  | .ok v => v
  | .error _ => []

def keyFn (re : ReOracle) (key : Bytes) (mt : Matcher) : FilterFn := fun res =>
  (none, mt.holds re (keyValue key res))

/-! ### filterOp (filter.go:100-152) -/

def notFn (sub : FilterFn) : FilterFn := fun res =>
  match sub res with
  | (none, x) => (none, !x)
  | (some m, _) => (some (maskNot m), false)

/-- the loop of the `OpAnd` closure; the accumulator is `var m mask` -/
def andLoop (res : Res) : List FilterFn → Option Mask → Out
  | [], m => (m, true)
  | sub :: subs, m =>
    match sub res with
    | (none, x) => if !x then (none, false) else andLoop res subs m
    | (some m2, _) =>
      match m with
      | none => andLoop res subs (some m2)
      | some m => andLoop res subs (some (maskAnd m m2))

def orLoop (res : Res) : List FilterFn → Option Mask → Out
  | [], m => (m, false)
  | sub :: subs, m =>
    match sub res with
    | (none, x) => if x then (none, true) else orLoop res subs m
    | (some m2, _) =>
      match m with
      | none => orLoop res subs (some m2)
      | some m => orLoop res subs (some (maskOr m m2))

def andFn (subs : List FilterFn) : FilterFn := fun res => andLoop res subs none
def orFn (subs : List FilterFn) : FilterFn := fun res => orLoop res subs none

/-! ### NewFilter's walk (filter.go:43-97) -/

inductive CompileErr
  | config (off : Nat)      -- ".config is only allowed in projections"
  | emptyKey (off : Nat)    -- newExtractor: "key must not be empty"
  deriving Repr, DecidableEq

mutual
def walk (re : ReOracle) : Filter → Except CompileErr FilterFn
  | .and es =>
    match walkList re es with
    | .ok subs => .ok (andFn subs)
    | .error e => .error e
  | .or es =>
    match walkList re es with
    | .ok subs => .ok (orFn subs)
    | .error e => .error e
  | .not e =>
    match walk re e with
    | .ok sub => .ok (notFn sub)
    | .error e => .error e
  | .mtch key off mt =>
    if key == dotUnit then .ok (unitFn re mt)
    else if key == dotConfig then .error (.config off)
    else if key.isEmpty then .error (.emptyKey off)
    else .ok (keyFn re key mt)
def walkList (re : ReOracle) : List Filter → Except CompileErr (List FilterFn)
  | [] => .ok []
  | e :: es =>
    match walk re e with
    | .error err => .error err
    | .ok f =>
      match walkList re es with
      | .error err => .error err
      | .ok fs => .ok (f :: fs)
end

/-! ### Match (filter.go:212-282) -/

structure Match where
  n : Nat
  m : Option Mask
  x : Bool

/-- `Filter.Match` -/
def filterMatch (f : FilterFn) (res : Res) : Match :=
  { n := res.values.length, m := (f res).1, x := (f res).2 }

def ones : Word := 0xffffffff#32

/-- `for i, x := range m.m { if x|(0xffffffff<<(m.n-i*32)) != 0xffffffff { return false } }`.
The shift count `m.n - i*32` is positive for every word of a mask of length ⌈n/32⌉, so the
truncated subtraction of `Nat` never differs from Go's `int`; a uint32 shifted by ≥ 32 is 0. -/
def allLoop (n : Nat) : Mask → Nat → Bool
  | [], _ => true
  | x :: xs, i => if (x ||| (ones <<< (n - i * 32))) != ones then false else allLoop n xs (i + 1)

/-- `if x&^(0xffffffff<<(m.n-i*32)) != 0 { return true }` -/
def anyLoop (n : Nat) : Mask → Nat → Bool
  | [], _ => false
  | x :: xs, i => if (x &&& ~~~(ones <<< (n - i * 32))) != 0#32 then true else anyLoop n xs (i + 1)

def Match.all (mt : Match) : Bool :=
  match mt.m with
  | none => mt.x
  | some m => allLoop mt.n m 0

def Match.any (mt : Match) : Bool :=
  match mt.m with
  | none => mt.x
  | some m => anyLoop mt.n m 0

/-- `Test(i)` for `i ≥ 0` -/
def Match.test (mt : Match) (i : Nat) : Bool :=
  if i >= mt.n then false
  else match mt.m with
    | none => mt.x
    | some m => (m.getD (i / 32) 0#32 &&& (1#32 <<< (i % 32))) != 0#32

/-- `Test(i)` with Go's signed argument -/
def Match.testInt (mt : Match) (i : Int) : Bool :=
  if i < 0 then false else mt.test i.toNat

/-- The copying loop of `Apply`, on the backing array, as written:
`for i, val := range res.Values { if m.Test(i) { res.Values[j] = val; j++ } }`.
`range` fixes the length up front (`fuel`) and reads element `i` at iteration `i`; the loop
writes element `j` of the same array. Returns the array and `j`. -/
def applyInPlace (mt : Match) : (fuel : Nat) → (i j : Nat) → (arr : List Value) → List Value × Nat
  | 0, _, j, arr => (arr, j)
  | fuel + 1, i, j, arr =>
    match arr[i]? with
    | none => (arr, j)
    | some val =>
      if mt.test i then applyInPlace mt fuel (i + 1) (j + 1) (arr.set j val)
      else applyInPlace mt fuel (i + 1) j arr

/-- `Match.Apply(res)`: the new `res.Values` (`res.Values[:j]`) and the returned flag (`j > 0`). -/
def Match.apply (mt : Match) (vals : List Value) : List Value × Bool :=
  if mt.all then (vals, true)
  else if !mt.any then ([], false)
  else
    let r := applyInPlace mt vals.length 0 0 vals
    (r.1.take r.2, decide (r.2 > 0))

/-- the whole backing array of `res.Values` after `Match.Apply(res)`, as a second slice header on
it would see it: untouched when `All()` or `!Any()` (only the length of `res.Values` changes),
compacted in place otherwise -/
def Match.applyBacking (mt : Match) (vals : List Value) : List Value :=
  if mt.all then vals
  else if !mt.any then vals
  else (applyInPlace mt vals.length 0 0 vals).1

/-- `Filter.Apply(res)` -/
def filterApply (f : FilterFn) (res : Res) : Res × Bool :=
  let r := (filterMatch f res).apply res.values
  ({ res with values := r.1 }, r.2)

/-! ### Fixed-order projections (projection.go:56-89, 148-274) -/

/-- `parse.Field` as far as the filter is concerned: the key and, for `key@(v1 v2 …)`, the list. -/
structure ProjField where
  key : Bytes
  fixed : Option (List Bytes)
  /-- the order name is none of first / fixed / alpha / num (`key@bogus`) -/
  badOrder : Bool := false

inductive ProjErr
  | unknownOrder | fixedConfig | unitKey | emptyKey
  deriving Repr, DecidableEq

/-- the keys `makeProjection` appends to `p.fullnameKeys` -/
def isFullnameKey (k : Bytes) : Bool := k == dotName || k.head? == some Fmt.Name.slash

/-- The extractor a projected field uses at the time results are processed. `excl` is
`p.fullnameKeys` when the first result arrives (the `.fullname` extractor is built lazily from
it and then kept). After commit 55c413e the membership test of a fixed order uses this same
extractor. -/
def projValue (excl : List Bytes) (key : Bytes) (res : Res) : Bytes :=
  if key == dotFullname then fullNameExcluding excl res.name else keyValue key res

/-- the `filter` closure made by `makeFilter`: `_, ok := fixedMap[string(ext(res))]; return nil, ok` -/
def fixedFn (excl : List Bytes) (key : Bytes) (fixed : List Bytes) : FilterFn := fun res =>
  (none, fixed.contains (projValue excl key res))

/-- validity of one field (`makeProjection`'s error returns that do not depend on the order name) -/
def checkField (f : ProjField) : Except ProjErr Unit :=
  -- `key@fixed`: order "fixed" without a list is not an order (commit 147e6a6)
  if f.badOrder || f.fixed == some [] then .error .unknownOrder
  else if f.key == dotConfig then (if f.fixed.isSome then .error .fixedConfig else .ok ())
  else if f.key == dotFullname then .ok ()
  else if f.key == dotUnit then .error .unitKey
  else if f.key.isEmpty then .error .emptyKey
  else .ok ()

def checkFields : List ProjField → Except ProjErr Unit
  | [] => .ok ()
  | f :: fs => match checkField f with
    | .error e => .error e
    | .ok () => checkFields fs

/-- the `filterParts` of one `Parse` call -/
def filterParts (excl : List Bytes) (fields : List ProjField) : List FilterFn :=
  fields.filterMap fun f => f.fixed.map (fixedFn excl f.key)

/-- `Parse(projection, filter)`: the new `filter.match`. -/
def parseInto (excl : List Bytes) (fields : List ProjField) (user : FilterFn) : FilterFn :=
  let ps := filterParts excl fields
  if ps.isEmpty then user else andFn (ps ++ [user])

/-! A `Parse` call as written (projection.go:79-103): the fields are compiled in order and the
filter parts are only COLLECTED; the first rejected field aborts the call — the parser state is
restored (commit 91c9aa7) and `filter.match` has not been touched; only when every field compiled
are the parts installed. -/

/-- the loop over the fields: the collected parts, or the first error -/
def parseLoop (excl : List Bytes) : List ProjField → List FilterFn → Except ProjErr (List FilterFn)
  | [], parts => .ok parts
  | f :: fs, parts =>
    match checkField f with
    | .error e => .error e
    | .ok () =>
      parseLoop excl fs (match f.fixed with
        | some l => parts ++ [fixedFn excl f.key l]
        | none => parts)

/-- one `Parse(projection, filter)` call: the new `filter.match` and the error, if any -/
def parseCall (excl : List Bytes) (fields : List ProjField) (user : FilterFn) : FilterFn × Option ProjErr :=
  match parseLoop excl fields [] with
  | .error e => (user, some e)
  | .ok ps => (if ps.isEmpty then user else andFn (ps ++ [user]), none)

/-- a history of `Parse` calls (accepted and rejected ones) on one parser and one filter, all
before the first result; `excl` is `p.fullnameKeys` when the first result arrives, i.e. the
sub-name keys of the ACCEPTED expressions -/
def parseHistory (excl : List Bytes) : List (List ProjField) → FilterFn → FilterFn
  | [], user => user
  | fs :: rest, user => parseHistory excl rest (parseCall excl fs user).1

/-- the accepted expressions of a history -/
def acceptedOf (projs : List (List ProjField)) : List (List ProjField) :=
  projs.filter fun fs => match checkFields fs with | .ok () => true | .error _ => false

/-- several `Parse` calls on one parser and one filter, all before the first result -/
def parseAll (excl : List Bytes) : List (List ProjField) → FilterFn → FilterFn
  | [], user => user
  | fs :: rest, user => parseAll excl rest (parseInto excl fs user)

/-- `p.fullnameKeys` after parsing these projections -/
def fullnameKeysOf (projs : List (List ProjField)) : List Bytes :=
  (projs.flatten.map (·.key)).filter isFullnameKey

end Proc.FilterEval
