/-
utf8.DecodeRune (incl. RuneError of width 1 for invalid encodings) and unicode.IsSpace.
-/
import Model.Base.Bytes

namespace Utf8

def runeError : Nat := 0xFFFD

/-- `utf8.DecodeRune`: (rune, width); width 0 only for empty input. Follows the Go tables:
rejects overlong forms, surrogates and values above U+10FFFF. -/
def decodeRune : Bytes → Nat × Nat
  | [] => (runeError, 0)
  | b0 :: rest =>
    let c0 := b0.toNat
    if c0 < 0x80 then (c0, 1)
    else if c0 < 0xC2 then (runeError, 1)
    else if c0 < 0xE0 then
      match rest with
      | b1 :: _ =>
        let c1 := b1.toNat
        if 0x80 ≤ c1 ∧ c1 ≤ 0xBF then ((c0 &&& 0x1F) <<< 6 ||| (c1 &&& 0x3F), 2) else (runeError, 1)
      | _ => (runeError, 1)
    else if c0 < 0xF0 then
      match rest with
      | b1 :: b2 :: _ =>
        let c1 := b1.toNat; let c2 := b2.toNat
        let lo := if c0 == 0xE0 then 0xA0 else 0x80
        let hi := if c0 == 0xED then 0x9F else 0xBF
        if lo ≤ c1 ∧ c1 ≤ hi ∧ 0x80 ≤ c2 ∧ c2 ≤ 0xBF then
          ((c0 &&& 0x0F) <<< 12 ||| (c1 &&& 0x3F) <<< 6 ||| (c2 &&& 0x3F), 3)
        else (runeError, 1)
      | _ => (runeError, 1)
    else if c0 < 0xF5 then
      match rest with
      | b1 :: b2 :: b3 :: _ =>
        let c1 := b1.toNat; let c2 := b2.toNat; let c3 := b3.toNat
        let lo := if c0 == 0xF0 then 0x90 else 0x80
        let hi := if c0 == 0xF4 then 0x8F else 0xBF
        if lo ≤ c1 ∧ c1 ≤ hi ∧ 0x80 ≤ c2 ∧ c2 ≤ 0xBF ∧ 0x80 ≤ c3 ∧ c3 ≤ 0xBF then
          ((c0 &&& 0x07) <<< 18 ||| (c1 &&& 0x3F) <<< 12 ||| (c2 &&& 0x3F) <<< 6 ||| (c3 &&& 0x3F), 4)
        else (runeError, 1)
      | _ => (runeError, 1)
    else (runeError, 1)

/-- `unicode.IsSpace` (the Unicode White_Space property; stable across Unicode versions in use) -/
def isSpace (r : Nat) : Bool :=
  r == 0x20 || (0x09 ≤ r && r ≤ 0x0D) || r == 0x85 || r == 0xA0 || r == 0x1680 ||
  (0x2000 ≤ r && r ≤ 0x200A) || r == 0x2028 || r == 0x2029 || r == 0x202F || r == 0x205F || r == 0x3000

end Utf8
