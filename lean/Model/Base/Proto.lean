/-
Line protocol shared by all drivers: a line is `word word k=v k=v ...`;
byte strings are hex encoded; lists are comma separated.
-/
import Model.Base.Bytes

namespace Proto

structure Line where
  words : List String
  deriving Repr

def parseLine (s : String) : Line :=
  { words := (s.splitOn " ").filter (· ≠ "") }

def Line.kind (l : Line) : String := l.words.headD ""
def Line.id (l : Line) : String := (l.words.drop 1).headD ""

/-- value of `k=` field, if present -/
def Line.get? (l : Line) (k : String) : Option String :=
  let p := k ++ "="
  (l.words.find? (·.startsWith p)).map (fun w => (w.drop p.length).toString)

def Line.getD (l : Line) (k : String) (d : String := "") : String := (l.get? k).getD d

def Line.bytes? (l : Line) (k : String) : Option Bytes := (l.get? k).bind Bytes.ofHex

def Line.nat? (l : Line) (k : String) : Option Nat := (l.get? k).bind String.toNat?

/-- comma separated list of hex byte strings; "-" denotes the empty list, "" an empty element -/
def hexList (s : String) : Option (List Bytes) :=
  if s == "-" then some [] else (s.splitOn ",").mapM Bytes.ofHex

def showHexList (l : List Bytes) : String :=
  if l.isEmpty then "-" else ",".intercalate (l.map Bytes.toHex)

def Line.hexList? (l : Line) (k : String) : Option (List Bytes) := (l.get? k).bind hexList

partial def forEachLine (h : IO.FS.Stream) (f : String → IO Unit) : IO Unit := do
  let line ← h.getLine
  if line.isEmpty then return ()
  f (line.trimAsciiEnd.toString)
  forEachLine h f

end Proto
