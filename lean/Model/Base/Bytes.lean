/-
Shared foundations: Go strings and []byte are `List UInt8` (`Bytes`).
Core Lean only (the driver executable links this).
-/

abbrev Bytes := List UInt8

namespace Bytes

def ofString (s : String) : Bytes := s.toUTF8.toList

/-- ASCII rendering for debugging only (non-ASCII bytes become '?'). -/
def toAscii (b : Bytes) : String :=
  String.ofList (b.map fun c => if c < 128 then Char.ofNat c.toNat else '?')

def hexDigit (n : Nat) : Char :=
  if n < 10 then Char.ofNat (48 + n) else Char.ofNat (87 + n)

def toHex (b : Bytes) : String :=
  String.ofList (b.flatMap fun c => [hexDigit (c.toNat / 16), hexDigit (c.toNat % 16)])

def hexVal (c : Char) : Option Nat :=
  if '0' ≤ c ∧ c ≤ '9' then some (c.toNat - 48)
  else if 'a' ≤ c ∧ c ≤ 'f' then some (c.toNat - 87)
  else if 'A' ≤ c ∧ c ≤ 'F' then some (c.toNat - 55)
  else none

def ofHexChars : List Char → Option Bytes
  | [] => some []
  | [_] => none
  | a :: b :: rest =>
    match hexVal a, hexVal b, ofHexChars rest with
    | some x, some y, some r => some (UInt8.ofNat (x * 16 + y) :: r)
    | _, _, _ => none

def ofHex (s : String) : Option Bytes := ofHexChars s.toList

/-- `bytes.HasPrefix` -/
def hasPrefix : Bytes → Bytes → Bool
  | _, [] => true
  | [], _ :: _ => false
  | a :: as, p :: ps => a == p && hasPrefix as ps

/-- `bytes.Contains` -/
def contains : Bytes → Bytes → Bool
  | [], sub => sub.isEmpty
  | a :: as, sub => hasPrefix (a :: as) sub || contains as sub

/-- `bytes.IndexByte(...) >= 0` -/
def hasByte (b : Bytes) (c : UInt8) : Bool := b.any (· == c)

def isDigit (c : UInt8) : Bool := 48 ≤ c && c ≤ 57

end Bytes
