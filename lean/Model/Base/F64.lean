/-
IEEE-754 binary64 as a bit pattern with exact integer arithmetic (core Lean only; every
function is kernel-evaluable with `decide +kernel`: only Nat/Int `+ * / % ^ log2`).

  value of a finite float  =  (-1)^sign · mant · 2^exp     (mant : Nat, exp : Int)

`roundRat neg num den` is round-to-nearest-even of ±num/den with gradual underflow and overflow
to ±Inf; `add sub mul div ofInt` are `roundRat ∘ exact` with the IEEE special cases, i.e. what
Go computes on amd64 (no fused multiply-add).
-/

namespace F64

abbrev Bits := UInt64

def signBit (b : Bits) : Bool := b >>> 63 != 0
def expField (b : Bits) : Nat := ((b >>> 52) &&& 0x7FF).toNat
def fracField (b : Bits) : Nat := (b &&& 0xFFFFFFFFFFFFF).toNat

def isNaN (b : Bits) : Bool := expField b == 2047 && fracField b != 0
def isInf (b : Bits) : Bool := expField b == 2047 && fracField b == 0
def isFinite (b : Bits) : Bool := expField b != 2047
def isZero (b : Bits) : Bool := expField b == 0 && fracField b == 0

def posZero : Bits := 0
def negZero : Bits := 0x8000000000000000
def posInf : Bits := 0x7FF0000000000000
def negInf : Bits := 0xFFF0000000000000
/-- the quiet NaN Go produces for invalid operations on amd64 (sign bit set by SSE) is not
observable through `math.IsNaN`; drivers canonicalise every NaN to this pattern. -/
def nan : Bits := 0x7FF8000000000001
def one : Bits := 0x3FF0000000000000

def canonNaN (b : Bits) : Bits := if isNaN b then nan else b

def inf (neg : Bool) : Bits := if neg then negInf else posInf
def zero (neg : Bool) : Bits := if neg then negZero else posZero

/-- finite value as (mantissa, exponent): value = mant · 2^exp -/
def mant (b : Bits) : Nat := if expField b == 0 then fracField b else fracField b + 2 ^ 52
def expo (b : Bits) : Int := if expField b == 0 then -1074 else (expField b : Int) - 1075

def neg (b : Bits) : Bits := b ^^^ 0x8000000000000000
def abs (b : Bits) : Bits := b &&& 0x7FFFFFFFFFFFFFFF

/-- round-half-even of num/den to a natural number -/
def rne (num den : Nat) : Nat :=
  let q := num / den
  let r := num % den
  if 2 * r > den || (2 * r == den && q % 2 == 1) then q + 1 else q

/-- numerator and denominator of (num/den)·2^s -/
def scaled (num den : Nat) (s : Int) : Nat × Nat := (num * 2 ^ s.toNat, den * 2 ^ (-s).toNat)

/-- The shift s with 2^52 ≤ (num/den)·2^s < 2^53, capped at 1074 (gradual underflow).
`log2 num − log2 den` is ⌊log2 (num/den)⌋ or one more, hence the single correction step. -/
def shiftOf (num den : Nat) : Int :=
  let s0 : Int := 52 - ((Nat.log2 num : Int) - (Nat.log2 den : Int))
  let (n0, d0) := scaled num den s0
  let s1 : Int := if n0 / d0 < 2 ^ 52 then s0 + 1 else s0
  if s1 > 1074 then 1074 else s1

/-- Round the positive rational num/den (den > 0) to nearest-even; returns the magnitude bits.
With s = shiftOf and q = rne((num/den)·2^s) the result is (1074 − s)·2^52 + q: the hidden bit of
q (≥ 2^52 for normal numbers) supplies the +1 of the biased exponent 1075 − s, a rounding carry
to 2^53 propagates into the exponent by itself, and subnormals (s = 1074, q < 2^52) get
exponent field 0. Overflow saturates to +Inf. -/
def roundMag (num den : Nat) : Bits :=
  if num == 0 || den == 0 then 0 else
  let s := shiftOf num den
  let (n, d) := scaled num den s
  let bits : Nat := (1074 - s).toNat * 2 ^ 52 + rne n d
  if bits ≥ 0x7FF0000000000000 then posInf else UInt64.ofNat bits

def roundRat (negative : Bool) (num den : Nat) : Bits :=
  let m := roundMag num den
  if negative then m ||| negZero else m

/-- exact value · 2^k as a fraction: mant·2^exp = num/den -/
def toFrac (m : Nat) (e : Int) : Nat × Nat :=
  if e ≥ 0 then (m * 2 ^ e.toNat, 1) else (m, 2 ^ (-e).toNat)

def mul (a b : Bits) : Bits :=
  if isNaN a || isNaN b then nan
  else
    let s := signBit a != signBit b
    if isInf a || isInf b then
      if isZero a || isZero b then nan else inf s
    else if isZero a || isZero b then zero s
    else
      let (n, d) := toFrac (mant a * mant b) (expo a + expo b)
      roundRat s n d

def div (a b : Bits) : Bits :=
  if isNaN a || isNaN b then nan
  else
    let s := signBit a != signBit b
    if isInf a then (if isInf b then nan else inf s)
    else if isInf b then zero s
    else if isZero b then (if isZero a then nan else inf s)
    else if isZero a then zero s
    else
      -- (ma·2^ea) / (mb·2^eb)
      let e := expo a - expo b
      if e ≥ 0 then roundRat s (mant a * 2 ^ e.toNat) (mant b)
      else roundRat s (mant a) (mant b * 2 ^ (-e).toNat)

def add (a b : Bits) : Bits :=
  if isNaN a || isNaN b then nan
  else if isInf a then (if isInf b && signBit a != signBit b then nan else a)
  else if isInf b then b
  else
    -- common exponent: the smaller one
    let e := if expo a ≤ expo b then expo a else expo b
    let ia : Int := (mant a * 2 ^ (expo a - e).toNat : Nat)
    let ib : Int := (mant b * 2 ^ (expo b - e).toNat : Nat)
    let sa : Int := if signBit a then -ia else ia
    let sb : Int := if signBit b then -ib else ib
    let sum := sa + sb
    if sum == 0 then
      -- x + (-x) = +0 in round-to-nearest; (-0) + (-0) = -0
      if signBit a && signBit b then negZero else posZero
    else
      let (n, d) := toFrac sum.natAbs e
      roundRat (sum < 0) n d

def sub (a b : Bits) : Bits := if isNaN b then nan else add a (neg b)

/-- Go's `float64(i)` for an int64 -/
def ofInt (i : Int) : Bits :=
  if i == 0 then posZero else roundRat (i < 0) i.natAbs 1

/-- `a < b` (false if either is NaN; -0 = +0) -/
def lt (a b : Bits) : Bool :=
  if isNaN a || isNaN b then false
  else if isZero a && isZero b then false
  else
    match signBit a, signBit b with
    | true, false => true
    | false, true => false
    | false, false => a < b
    | true, true => b < a

def eq (a b : Bits) : Bool :=
  if isNaN a || isNaN b then false
  else if isZero a && isZero b then true
  else a == b

def le (a b : Bits) : Bool := lt a b || eq a b

/-- value = ±num/den for finite floats -/
def toRatParts (b : Bits) : Bool × Nat × Nat :=
  let (n, d) := toFrac (mant b) (expo b)
  (signBit b, n, d)

/-- m · 10^e rounded (decimal → binary): specification of correctly rounded parsing -/
def ofDecimal (negative : Bool) (m : Nat) (e : Int) : Bits :=
  if m == 0 then zero negative
  else if e ≥ 0 then roundRat negative (m * 10 ^ e.toNat) 1
  else roundRat negative m (10 ^ (-e).toNat)

/-- m · 2^e rounded (hex floats) -/
def ofBinary (negative : Bool) (m : Nat) (e : Int) : Bits :=
  if m == 0 then zero negative
  else let (n, d) := toFrac m e; roundRat negative n d

def hexDigitC (n : Nat) : Char := if n < 10 then Char.ofNat (48 + n) else Char.ofNat (87 + n)

def toHex (b : Bits) : String :=
  String.ofList ((List.range 16).map fun i => hexDigitC ((b.toNat >>> (4 * (15 - i))) % 16))

def ofHex? (s : String) : Option Bits :=
  if s.length != 16 then none else
  s.toList.foldlM (fun (acc : Nat) c =>
    let v := if '0' ≤ c ∧ c ≤ '9' then some (c.toNat - 48)
             else if 'a' ≤ c ∧ c ≤ 'f' then some (c.toNat - 87)
             else if 'A' ≤ c ∧ c ≤ 'F' then some (c.toNat - 55) else none
    v.map (acc * 16 + ·)) 0 |>.map UInt64.ofNat

/-! ### Fixed-precision decimal printing: specification of strconv 'f' with precision p -/

def natToDigits (n : Nat) : List Char := (Nat.toDigits 10 n)

/-- digits of round-half-even(|x| · 10^p) and sign, for finite x -/
def fixedScaled (b : Bits) (p : Nat) : Nat :=
  let (n, d) := toFrac (mant b) (expo b)
  rne (n * 10 ^ p) d

/-- `strconv.FormatFloat(x, 'f', p, 64)` -/
def fmtFixed (b : Bits) (p : Nat) : String :=
  if isNaN b then "NaN"
  else if isInf b then (if signBit b then "-Inf" else "+Inf")
  else
    let k := fixedScaled b p
    let ds := natToDigits k
    -- pad to at least p+1 digits
    let ds := (List.replicate (p + 1 - ds.length) '0') ++ ds
    let ip := ds.take (ds.length - p)
    let fp := ds.drop (ds.length - p)
    let body := String.ofList ip ++ (if p == 0 then "" else "." ++ String.ofList fp)
    (if signBit b then "-" else "") ++ body

end F64
