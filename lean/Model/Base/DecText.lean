/-
Numeric text → exact (sign, mantissa, exponent) → F64: the *specification* side of decimal and
hexadecimal float parsing for plain numerals (no underscores, no inf/nan): used to build the
scale thresholds exactly as benchunit does (`strconv.ParseFloat(fmt.Sprintf("99.995e%d", exp))`).
-/
import Model.Base.F64

namespace DecText

structure Num where
  neg : Bool
  mant : Nat
  exp : Int      -- power of ten (decimal) or two (hex)
  hex : Bool
  deriving Repr, DecidableEq

def digitVal (c : Char) : Option Nat :=
  if '0' ≤ c ∧ c ≤ '9' then some (c.toNat - 48) else none

def hexVal (c : Char) : Option Nat :=
  if '0' ≤ c ∧ c ≤ '9' then some (c.toNat - 48)
  else if 'a' ≤ c ∧ c ≤ 'f' then some (c.toNat - 87)
  else if 'A' ≤ c ∧ c ≤ 'F' then some (c.toNat - 55)
  else none

/-- read digits in `base`; returns (value, count, rest) -/
def readDigits (dv : Char → Option Nat) (base : Nat) : List Char → Nat → Nat → Nat × Nat × List Char
  | [], acc, n => (acc, n, [])
  | c :: cs, acc, n =>
    match dv c with
    | some d => readDigits dv base cs (acc * base + d) (n + 1)
    | none => (acc, n, c :: cs)

def readInt (cs : List Char) : Option (Int × List Char) :=
  let (neg, cs) := match cs with
    | '-' :: r => (true, r)
    | '+' :: r => (false, r)
    | _ => (false, cs)
  let (v, n, rest) := readDigits digitVal 10 cs 0 0
  if n == 0 then none else some (if neg then -(v : Int) else v, rest)

def parse (s : String) : Option Num :=
  let cs := s.toList
  let (neg, cs) := match cs with
    | '-' :: r => (true, r)
    | '+' :: r => (false, r)
    | _ => (false, cs)
  match cs with
  | '0' :: x :: r =>
    if x == 'x' || x == 'X' then
      let (ip, n1, r1) := readDigits hexVal 16 r 0 0
      let (m, n2, r2) := match r1 with
        | '.' :: r' => let (m, n2, r2) := readDigits hexVal 16 r' ip 0; (m, n2, r2)
        | _ => (ip, 0, r1)
      if n1 + n2 == 0 then none else
      match r2 with
      | p :: r3 =>
        if p == 'p' || p == 'P' then
          match readInt r3 with
          | some (e, []) => some { neg, mant := m, exp := e - 4 * (n2 : Int), hex := true }
          | _ => none
        else none
      | [] => none
    else parseDec neg cs
  | _ => parseDec neg cs
where
  parseDec (neg : Bool) (cs : List Char) : Option Num :=
    let (ip, n1, r1) := readDigits digitVal 10 cs 0 0
    let (m, n2, r2) := match r1 with
      | '.' :: r' => let (m, n2, r2) := readDigits digitVal 10 r' ip 0; (m, n2, r2)
      | _ => (ip, 0, r1)
    if n1 + n2 == 0 then none else
    match r2 with
    | [] => some { neg, mant := m, exp := -(n2 : Int), hex := false }
    | e :: r3 =>
      if e == 'e' || e == 'E' then
        match readInt r3 with
        | some (x, []) => some { neg, mant := m, exp := x - (n2 : Int), hex := false }
        | _ => none
      else none

def Num.toF64 (n : Num) : F64.Bits :=
  if n.hex then F64.ofBinary n.neg n.mant n.exp else F64.ofDecimal n.neg n.mant n.exp

def toF64? (s : String) : Option F64.Bits := (parse s).map Num.toF64

end DecText
