import Model.Base.Bytes
import Model.Base.Proto
import Model.Fmt.Name
import Model.Proc.Extract
import Model.Spec.Name
