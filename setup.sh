#!/bin/bash
# Build the framework offline: Lean model + proofs + driver, warm the Go build cache.
set -e
cd "$(dirname "$0")"
export GOFLAGS=-mod=mod GOPROXY=off GOSUMDB=off GOTOOLCHAIN=local
mkdir -p build/bin evidence replays
(cd lean && lake build 2>&1 | tail -5)
python3 - <<'PY'
import json, check, os
props = check.load_props()
for p, cfg in props.items():
    h = cfg.get("harness")
    if not h: continue
    v = open(os.path.join(check.ROOT, "harness", h, "VPATH")).read().strip()
    r = check.go_build(h, v, os.path.join(check.BUILD, "bin", h), cfg.get("go_flags", []))
    print("warm", p, h, "ok" if r.returncode == 0 else r.stdout[-500:])
PY
