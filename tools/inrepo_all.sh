#!/bin/bash
# Final confirmation as the brief prescribes: apply each seeded change to /repo itself, run the property's quick check, undo.
cd /verif
for d in seeded/*/; do
  n=$(basename $d)
  P=$(python3 -c "import json;print(json.load(open('$d/meta.json'))['property'])")
  out=$(python3 tools/seedtest.py $d $P --keep $n --skip-confirm --in-repo 2>&1)
  echo "$n $P $(echo "$out" | grep -E '"(detected|replay_layer|no_failing_input_found)"' | tr -d ' \n')"
done
git -C /repo status --short | head -3
