#!/usr/bin/env python3
"""seedtest.py <seed dir with patch.diff [demo_test.go] meta.json> <property> [--keep <name>] [--tier quick]

1. confirm the seeded change in a scratch worktree: applies, builds, full test suite passes, demo fails with / passes without;
2. run the property's check against /repo with the patch applied (git apply; check; git checkout -- .);
3. with --keep, store it under /verif/seeded/<name>/ with the results appended to meta.json."""
import argparse, json, os, re, shutil, subprocess, sys, time

ENV = dict(os.environ, GOFLAGS="-mod=mod", GOPROXY="off", GOSUMDB="off", GOTOOLCHAIN="local")

def run(cmd, cwd=None, timeout=1800):
    r = subprocess.run(cmd, cwd=cwd, env=ENV, stdout=subprocess.PIPE, stderr=subprocess.STDOUT, timeout=timeout, shell=isinstance(cmd, str))
    return r.returncode, r.stdout.decode("utf-8", errors="replace")

def main():
    ap = argparse.ArgumentParser()
    ap.add_argument("seed"); ap.add_argument("prop")
    ap.add_argument("--keep"); ap.add_argument("--tier", default="quick")
    ap.add_argument("--skip-confirm", action="store_true")
    ap.add_argument("--in-repo", action="store_true", help="apply the patch to /repo itself (only when no builder is running); default: scratch worktree + VERIF_REPO")
    a = ap.parse_args()
    seed = os.path.abspath(a.seed)
    patch = os.path.join(seed, "patch.diff")
    demo = next((os.path.join(seed, f) for f in ("demo_test.go", "demo_test.go.txt") if os.path.exists(os.path.join(seed, f))), None)
    res = {}
    wt = "/tmp/seedverify-%d" % os.getpid()
    if not a.skip_confirm:
        run(["git", "-C", "/repo", "worktree", "add", "--detach", wt, "HEAD"])
        try:
            rc, out = run(["git", "apply", patch], cwd=wt)
            res["applies"] = rc == 0
            if rc != 0:
                print("patch does not apply:", out[-500:])
            else:
                rc, out = run("go build ./... ", cwd=wt); res["builds"] = rc == 0
                rc, out = run("go test -mod=mod -vet=off -count=1 ./... 2>&1 | grep -v 'no test files'", cwd=wt)
                res["suite_passes_with_change"] = ("FAIL" not in out) and rc == 0
                if not res["suite_passes_with_change"]:
                    print(out[-1500:])
                if demo:
                    src = open(demo).read()
                    m = re.search(r"package directory[: ]+`?([\w/.\-]+)`?|goes (?:in|into)[^`\n]*`([\w/.\-]+)`|(?:in|into) (?:package )?(?:dir(?:ectory)? )?`?((?:[a-z]+/)*[a-z]+)/?`?", src.split("\n", 3)[0] + "\n" + "\n".join(src.split("\n")[1:3]))
                    pkgdir = None
                    for cand in re.findall(r"[\w\-]+(?:/[\w\-]+)*", "\n".join(src.split("\n")[:4])):
                        if os.path.isdir(os.path.join(wt, cand)) and cand not in (".",) and "/" in cand + "/" and os.path.exists(os.path.join(wt, cand)):
                            if any(f.endswith(".go") for f in os.listdir(os.path.join(wt, cand))):
                                pkgdir = cand; break
                    if pkgdir is None:
                        pm = re.search(r"^package (\w+)", src, re.M)
                        print("cannot find package dir in demo header; package", pm and pm.group(1))
                    else:
                        dst = os.path.join(wt, pkgdir, "zz_seed_test.go")
                        shutil.copy(demo, dst)
                        rc1, o1 = run("go test -mod=mod -vet=off -count=1 -run 'Seed|Wit' ./%s/" % pkgdir, cwd=wt)
                        res["demo_fails_with_change"] = rc1 != 0
                        run(["git", "apply", "-R", patch], cwd=wt)
                        rc2, o2 = run("go test -mod=mod -vet=off -count=1 -run 'Seed|Wit' ./%s/" % pkgdir, cwd=wt)
                        res["demo_passes_without_change"] = rc2 == 0
                        res["demo_pkg"] = pkgdir
                        if rc1 == 0 or rc2 != 0:
                            print("demo with change:", o1[-600:], "\ndemo without:", o2[-600:])
        finally:
            run(["git", "-C", "/repo", "worktree", "remove", "--force", wt])
    # run the check with the patch applied: to /repo itself (--in-repo) or to a scratch worktree
    if a.in_repo:
        target = "/repo"
        rc, out = run(["git", "-C", "/repo", "status", "--porcelain"])
        if out.strip():
            print("/repo is not clean; refusing"); sys.exit(2)
    else:
        target = "/tmp/seedrun-%d" % os.getpid()
        run(["git", "-C", "/repo", "worktree", "add", "--detach", target, "HEAD"])
    rc, out = run(["git", "-C", target, "apply", patch])
    if rc != 0:
        print("patch does not apply:", out[-400:])
        if not a.in_repo: run(["git", "-C", "/repo", "worktree", "remove", "--force", target])
        sys.exit(2)
    try:
        t0 = time.time()
        ENV["VERIF_REPO"] = target
        rc, out = run(["python3", "/verif/check.py", a.prop, "--tier", a.tier], cwd="/verif", timeout=7200)
        res["check_exit"] = rc
        res["check_tail"] = out.strip().split("\n")[-4:]
        res["check_wall_s"] = round(time.time() - t0, 1)
        res["applied_to"] = "/repo" if a.in_repo else "scratch worktree (VERIF_REPO)"
        m = re.search(r"VIOLATION property=\S+ replay=(\S+)", out)
        if m and os.path.exists(m.group(1)):
            rp = json.load(open(m.group(1)))
            res["replay_layer"] = rp.get("layer"); res["replay_diff"] = (rp.get("diff") or str(rp.get("broken", ""))[:300])
            res["no_failing_input_found"] = "no-failing-input-found" in out
    finally:
        if a.in_repo:
            run(["git", "-C", "/repo", "checkout", "--", "."])
            run(["git", "-C", "/repo", "clean", "-fdq"])
        else:
            run(["git", "-C", "/repo", "worktree", "remove", "--force", target])
    res["detected"] = res.get("check_exit") == 1
    print(json.dumps(res, indent=1))
    if a.keep:
        dst = os.path.join("/verif/seeded", a.keep); os.makedirs(dst, exist_ok=True)
        prev = {}
        if os.path.exists(os.path.join(dst, "meta.json")):
            prev = json.load(open(os.path.join(dst, "meta.json")))
        if os.path.realpath(seed) != os.path.realpath(dst):
            for f in os.listdir(seed):
                shutil.copy(os.path.join(seed, f), os.path.join(dst, f if not f.endswith("_test.go") else f + ".txt"))
        mp = os.path.join(dst, "meta.json")
        meta = json.load(open(mp)) if os.path.exists(mp) else {}
        # what earlier runs recorded (verdicts, cross-property checks, notes) survives a re-run
        for k in ("check_results", "first_run", "confirmed_by_coordinator", "cross_checks", "latest_note"):
            if k in prev and k not in meta:
                meta[k] = prev[k]
        meta.setdefault("property", a.prop)
        if not a.skip_confirm:
            meta["confirmed_by_coordinator"] = {k: res.get(k) for k in ("applies", "builds", "suite_passes_with_change", "demo_fails_with_change", "demo_passes_without_change", "demo_pkg")}
        meta.setdefault("check_results", []).append({"property": a.prop, "tier": a.tier, "detected": res["detected"], "layer": res.get("replay_layer"), "no_failing_input_found": res.get("no_failing_input_found"), "diff": res.get("replay_diff"), "tail": res.get("check_tail"), "applied_to": res.get("applied_to"), "ran": "git apply patch.diff; python3 check.py %s --tier %s; undo" % (a.prop, a.tier)})
        json.dump(meta, open(mp, "w"), indent=1)

if __name__ == "__main__":
    main()
