#!/bin/bash
# Unchanged-tree sweep (false-alarm hunt): tools/sweep.sh <tier> <seed> [props...]
# Runs the correspondence and search layers of each check against a clean scratch worktree of /repo's HEAD with
# private scratch directories, so it can run beside other work. A non-zero rc on the unchanged tree is a false
# alarm of the machinery (or a genuine defect) and must be investigated before anything else.
cd "$(dirname "$0")/.."
t=${1:-quick}; s=${2:-0}; shift; shift
props=${@:-C01 C02 C03 C04 C05 C06 C07 C08 C09 C10 C11 C12 C13 C14 C15 C16 C17 C18 C19 C20}
wt=/tmp/sweep-clean-wt
[ -d $wt ] || git -C /repo worktree add --detach $wt HEAD >/dev/null 2>&1
for p in $props; do
  out=$(VERIF_SEED=$s VERIF_REPO=$wt VERIF_BUILD=/tmp/sweep-b-$t-$s-$p VERIF_OUT=/tmp/sweep-o-$t-$s-$p python3 check.py $p --tier $t --skip-proofs 2>&1); rc=$?
  echo "tier=$t seed=$s rc=$rc $(echo "$out" | tail -1 | cut -c1-120)"
  [ $rc -ne 0 ] && echo "$out" | grep VIOLATION | head -3
  rm -rf /tmp/sweep-b-$t-$s-$p
done
