#!/bin/bash
# test every delivered seed with the given letters (default GH; e.g. IJ) that is not yet stored under seeded/
cd /verif
for d in /tmp/breaker/out/C*/[${1:-GH}]; do
  p=$(basename $(dirname $d)); s=$(basename $d)
  [ -f $d/patch.diff ] && [ -f $d/meta.json ] || continue
  [ -d seeded/$p-$s ] && continue
  echo "=== $p-$s"
  python3 tools/seedtest.py $d $p --keep $p-$s 2>&1 | grep -E '"(applies|builds|suite_passes_with_change|demo_fails_with_change|demo_passes_without_change|replay_layer|replay_diff|no_failing_input_found|detected)"|does not apply|cannot find'
done
