#!/bin/bash
# In-repo confirmation of a subset of the seeds (default: the round-9 seeds Cxx-Q, Cxx-R and every revert-F):
# apply to /repo itself, run the property's quick check, undo. Only when nothing else reads /repo.
cd /verif
pat=${1:-'seeded/C??-[QR]/ seeded/revert-F*/'}
for d in $pat; do
  n=$(basename $d)
  P=$(python3 -c "import json;print(json.load(open('$d/meta.json'))['property'])")
  out=$(python3 tools/seedtest.py $d $P --keep $n --skip-confirm --in-repo 2>&1)
  echo "$n $P $(echo "$out" | grep -E '"(detected|replay_layer|no_failing_input_found)"' | tr -d ' \n') $(echo "$out" | grep -c 'does not apply')"
done
git -C /repo status --short | head -3
