// mutgen enumerates and applies single-site mutations of a Go source file (go/ast).
//
//	mutgen -file f.go -list            one JSON object per line: {"id","line","op","desc"}
//	mutgen -file f.go -apply ID        mutated file on stdout
//
// Operators: relational/logical/arithmetic operator swaps, integer literal +1/-1, dropped
// negation, negated if-condition, removed break/continue, deleted call/assignment/inc-dec
// statement, flipped boolean literal. Mutants that do not compile are discarded by the caller.
package main

import (
	"bytes"
	"encoding/json"
	"flag"
	"fmt"
	"go/ast"
	"go/parser"
	"go/printer"
	"go/token"
	"os"
	"strconv"
)

type site struct {
	ID   int    `json:"id"`
	Line int    `json:"line"`
	Op   string `json:"op"`
	Desc string `json:"desc"`
	do   func()
}

var swaps = map[token.Token][]token.Token{
	token.LSS: {token.LEQ}, token.LEQ: {token.LSS}, token.GTR: {token.GEQ}, token.GEQ: {token.GTR},
	token.EQL: {token.NEQ}, token.NEQ: {token.EQL}, token.LAND: {token.LOR}, token.LOR: {token.LAND},
	token.ADD: {token.SUB}, token.SUB: {token.ADD}, token.MUL: {token.QUO}, token.QUO: {token.MUL},
	token.REM: {token.QUO}, token.SHL: {token.SHR}, token.SHR: {token.SHL}, token.AND: {token.OR}, token.OR: {token.AND},
}

func main() {
	file := flag.String("file", "", "")
	list := flag.Bool("list", false, "")
	apply := flag.Int("apply", -1, "")
	flag.Parse()
	fset := token.NewFileSet()
	f, err := parser.ParseFile(fset, *file, nil, parser.ParseComments)
	if err != nil {
		fmt.Fprintln(os.Stderr, err)
		os.Exit(2)
	}
	var sites []*site
	add := func(pos token.Pos, op, desc string, do func()) {
		sites = append(sites, &site{ID: len(sites), Line: fset.Position(pos).Line, Op: op, Desc: desc, do: do})
	}
	var inFunc bool
	var visitBlock func(list *[]ast.Stmt)
	visitBlock = func(list *[]ast.Stmt) {
		for i := range *list {
			i := i
			st := (*list)[i]
			switch s := st.(type) {
			case *ast.BranchStmt:
				if s.Tok == token.BREAK || s.Tok == token.CONTINUE {
					add(s.Pos(), "rm-branch", "remove "+s.Tok.String(), func() { (*list)[i] = &ast.EmptyStmt{Semicolon: s.Pos()} })
				}
			case *ast.ExprStmt:
				if _, ok := s.X.(*ast.CallExpr); ok {
					add(s.Pos(), "rm-call", "delete call statement", func() { (*list)[i] = &ast.EmptyStmt{Semicolon: s.Pos()} })
				}
			case *ast.AssignStmt:
				if s.Tok != token.DEFINE {
					add(s.Pos(), "rm-assign", "delete assignment", func() { (*list)[i] = &ast.EmptyStmt{Semicolon: s.Pos()} })
				}
			case *ast.IncDecStmt:
				add(s.Pos(), "rm-incdec", "delete "+s.Tok.String(), func() { (*list)[i] = &ast.EmptyStmt{Semicolon: s.Pos()} })
			}
		}
	}
	ast.Inspect(f, func(n ast.Node) bool {
		switch x := n.(type) {
		case *ast.FuncDecl:
			inFunc = true
		case *ast.BlockStmt:
			visitBlock(&x.List)
		case *ast.CaseClause:
			visitBlock(&x.Body)
		case *ast.CommClause:
			visitBlock(&x.Body)
		case *ast.BinaryExpr:
			for _, to := range swaps[x.Op] {
				from, to := x.Op, to
				add(x.OpPos, "binop", from.String()+" -> "+to.String(), func() { x.Op = to })
			}
		case *ast.UnaryExpr:
			if x.Op == token.NOT {
				add(x.OpPos, "rm-not", "drop ! (printed as !!)", func() { x.X = &ast.UnaryExpr{Op: token.NOT, X: &ast.ParenExpr{X: x.X}} })
			}
		case *ast.IfStmt:
			add(x.Cond.Pos(), "neg-if", "negate if condition", func() {
				x.Cond = &ast.UnaryExpr{Op: token.NOT, X: &ast.ParenExpr{X: x.Cond}}
			})
		case *ast.BasicLit:
			if x.Kind == token.INT {
				if v, err := strconv.ParseInt(x.Value, 0, 64); err == nil {
					old := x.Value
					add(x.Pos(), "int+1", old+" -> "+strconv.FormatInt(v+1, 10), func() { x.Value = strconv.FormatInt(v+1, 10) })
					if v > 0 {
						add(x.Pos(), "int-1", old+" -> "+strconv.FormatInt(v-1, 10), func() { x.Value = strconv.FormatInt(v-1, 10) })
					}
				}
			}
		case *ast.Ident:
			if inFunc && (x.Name == "true" || x.Name == "false") && x.Obj == nil {
				old := x.Name
				nw := map[string]string{"true": "false", "false": "true"}[old]
				add(x.Pos(), "bool", old+" -> "+nw, func() { x.Name = nw })
			}
		}
		return true
	})
	if *list {
		enc := json.NewEncoder(os.Stdout)
		for _, s := range sites {
			enc.Encode(s)
		}
		return
	}
	if *apply < 0 || *apply >= len(sites) {
		fmt.Fprintln(os.Stderr, "bad id")
		os.Exit(2)
	}
	s := sites[*apply]
	s.do()
	var buf bytes.Buffer
	if err := (&printer.Config{Mode: printer.UseSpaces | printer.TabIndent, Tabwidth: 8}).Fprint(&buf, fset, f); err != nil {
		fmt.Fprintln(os.Stderr, err)
		os.Exit(2)
	}
	out := buf.Bytes()
	os.Stdout.Write(out)
}
