#!/usr/bin/env python3
"""manifest_add.py <ID> <level text> <level note>  — add/replace a check entry in MANIFEST.json"""
import json, sys
pid, text, note = sys.argv[1], sys.argv[2], sys.argv[3]
m = json.load(open('/verif/MANIFEST.json'))
m['checks'] = [c for c in m['checks'] if c['property_id'] != pid]
m['checks'].append({"property_id": pid, "quick_cmd": "python3 check.py %s --tier quick" % pid,
    "thorough_cmd": "python3 check.py %s --tier thorough" % pid, "evidence_file": "evidence/%s.json" % pid,
    "replay_cmd_template": "python3 check.py %s --replay {path}" % pid, "engine": "lean-proof+correspondence",
    "level_claimed": {"category": "proof", "text": text, "design_ref": "DESIGN.md 4 %s, 9; notes/%s.md" % (pid, pid)},
    "level_note": note, "technique": "Lean 4 proof + model/implementation correspondence"})
m['not_applicable'] = [n for n in m.get('not_applicable', []) if n['property_id'] != pid]
m['checks'].sort(key=lambda c: c['property_id'])
m['engines'][0]['serves_properties'] = sorted(c['property_id'] for c in m['checks'])
json.dump(m, open('/verif/MANIFEST.json', 'w'), indent=1)
