#!/usr/bin/env python3
"""mutate.py — mechanical mutation sweep over the files the properties are anchored in.

For every sampled single-site mutant (tools/mutgen, go/ast) of an anchored non-test file:
  1. apply it in a private scratch worktree of /repo (never /repo itself);
  2. `go build ./...` — mutants that do not compile are discarded;
  3. `go test ./...` (unedited suite) — mutants the suite kills are discarded;
  4. the SURVIVORS (compile + suite green) are given to the check of every property that anchors the
     file: `VERIF_REPO=<worktree> python3 check.py Cxx --skip-proofs` with private VERIF_BUILD/VERIF_OUT.
Result lines (JSON) go to mut/results.jsonl: status = nocompile | suite-kills | S (a check reports a
concrete failing input) | K (only correspondence broken) | survived (no check objects: either an
equivalent mutant — the property still holds — or a hole in the check; triaged by hand, see mut/TRIAGE.md).

  python3 tools/mutate.py --cap 40 --workers 6 [--files a.go,b.go] [--props C05,C08] [--seed 1]
"""
import argparse, json, os, random, subprocess, sys, threading, queue, time, shutil

V = "/verif"
ENV = dict(os.environ, GOFLAGS="-mod=mod", GOPROXY="off", GOSUMDB="off", GOTOOLCHAIN="local")
MUTGEN = V + "/build/mutgen"

def run(cmd, cwd=None, timeout=600, env=None):
    try:
        r = subprocess.run(cmd, cwd=cwd, env=env or ENV, stdout=subprocess.PIPE, stderr=subprocess.STDOUT, timeout=timeout)
        return r.returncode, r.stdout.decode("utf-8", "replace")
    except subprocess.TimeoutExpired as e:
        return 124, "timeout " + ((e.stdout or b"").decode("utf-8", "replace")[-500:])

def anchors():
    files = {}
    for l in open(V + "/properties.jsonl"):
        d = json.loads(l)
        for f in d["anchors"]["files"]:
            if f.endswith(".go") and os.path.exists("/repo/" + f):
                files.setdefault(f, []).append(d["id"])
    return files

def worker(i, q, out, lock, args):
    wt = "/tmp/mut-wt-%d" % i
    b, o = "/tmp/mut-b-%d" % i, "/tmp/mut-o-%d" % i
    while True:
        try:
            m = q.get_nowait()
        except queue.Empty:
            break
        t0 = time.time()
        f = m["file"]
        rc, src = run([MUTGEN, "-file", "/repo/" + f, "-apply", str(m["id"])])
        res = dict(m)
        if rc != 0:
            res["status"] = "mutgen-error"
        else:
            open(os.path.join(wt, f), "w").write(src)
            rc, outp = run("go build ./...", cwd=wt, timeout=300, env=dict(ENV, SHELL="/bin/sh")) if False else run(["go", "build", "./..."], cwd=wt, timeout=300)
            if rc != 0:
                res["status"] = "nocompile"
            else:
                rc, outp = run(["go", "test", "-vet=off", "-timeout", "120s", "./..."], cwd=wt, timeout=400)
                if rc != 0:
                    res["status"] = "suite-kills"
                else:
                    res["status"] = "survived"; res["checks"] = {}
                    for p in m["props"]:
                        if args.props and p not in args.props: continue
                        env = dict(ENV, VERIF_REPO=wt, VERIF_BUILD=b, VERIF_OUT=o)
                        rc, outp = run(["python3", V + "/check.py", p, "--skip-proofs"], cwd=V, timeout=1500, env=env)
                        lines = outp.strip().splitlines()
                        viol = [l for l in lines if l.startswith("VIOLATION")]
                        if any("no-failing-input-found" not in l for l in viol):
                            v = "S"
                        elif viol:
                            v = "K"
                        elif rc != 0:
                            v = "error:" + (lines[-1] if lines else "")[:200]
                        else:
                            v = "pass"
                        res["checks"][p] = v
                        res.setdefault("summary", {})[p] = (lines[-1] if lines else "")[:200]
                        if v == "S":
                            try:
                                rp = json.load(open([l for l in viol if "no-failing" not in l][0].split("replay=")[1].split()[0]))
                                res.setdefault("replay", {})[p] = (rp.get("diff") or "")[:200]
                            except Exception:
                                pass
                            break
                    vs = list(res["checks"].values())
                    res["status"] = "S" if "S" in vs else ("K" if "K" in vs else ("survived" if all(v == "pass" for v in vs) else "check-error"))
            run(["git", "checkout", "--", f], cwd=wt)
        res["wall"] = round(time.time() - t0, 1)
        with lock:
            out.write(json.dumps(res) + "\n"); out.flush()
    run(["git", "-C", "/repo", "worktree", "remove", "--force", wt])
    shutil.rmtree(b, ignore_errors=True); shutil.rmtree(o, ignore_errors=True)

def main():
    ap = argparse.ArgumentParser()
    ap.add_argument("--cap", type=int, default=40)
    ap.add_argument("--workers", type=int, default=6)
    ap.add_argument("--files"); ap.add_argument("--props"); ap.add_argument("--skip-prefix", default=""); ap.add_argument("--seed", type=int, default=1)
    ap.add_argument("--out", default=V + "/mut/results.jsonl")
    args = ap.parse_args()
    if args.props: args.props = set(args.props.split(","))
    os.makedirs(os.path.dirname(args.out), exist_ok=True)
    done = set()
    if os.path.exists(args.out):
        for l in open(args.out):
            d = json.loads(l); done.add((d["file"], d["id"]))
    files = anchors()
    rnd = random.Random(args.seed)
    todo = []
    for f, ps in sorted(files.items()):
        if args.files and f not in args.files.split(","): continue
        if args.skip_prefix and any(f.startswith(x) for x in args.skip_prefix.split(",")): continue
        if args.props and not (set(ps) & args.props): continue
        rc, outp = run([MUTGEN, "-file", "/repo/" + f, "-list"])
        sites = [json.loads(l) for l in outp.splitlines() if l.startswith("{")]
        rnd.shuffle(sites)
        fresh = [s for s in sites if (f, s["id"]) not in done]
        for s in fresh[:args.cap]:
            s.update(file=f, props=ps); todo.append(s)
    rnd.shuffle(todo)
    print(len(todo), "mutants to run;", len(done), "already done", flush=True)
    q = queue.Queue()
    for m in todo: q.put(m)
    out = open(args.out, "a"); lock = threading.Lock()
    for i in range(args.workers):   # sequentially: concurrent `git worktree add` calls race on the repository lock
        wt = "/tmp/mut-wt-%d" % i
        run(["git", "-C", "/repo", "worktree", "remove", "--force", wt])
        run(["git", "-C", "/repo", "worktree", "add", "--detach", wt, "HEAD"])
    ths = [threading.Thread(target=worker, args=(i, q, out, lock, args)) for i in range(args.workers)]
    for t in ths: t.start()
    for t in ths: t.join()
    print("done")

if __name__ == "__main__":
    main()
