#!/bin/bash
# mut_apply.sh <file relative to repo> <mutant id> <worktree>   — write mutant <id> of <file> into <worktree> (a scratch worktree of /repo)
set -e
/verif/build/mutgen -file /repo/$1 -apply $2 > $3/$1
git -C $3 diff --stat | tail -1
