#!/bin/bash
# Run every claimed check (quick tier by default) and print one line per property; exit 1 if any check exits non-zero.
cd "$(dirname "$0")/.."
tier=${1:-quick}
fail=0
for p in $(python3 -c "import json;print(' '.join(c['property_id'] for c in json.load(open('MANIFEST.json'))['checks']))"); do
  out=$(python3 check.py $p --tier $tier 2>&1); rc=$?
  echo "$out" | tail -1 | sed "s/^/[rc=$rc] /"
  if [ $rc -ne 0 ]; then fail=1; echo "$out" | grep VIOLATION | head -3; fi
done
exit $fail
