#!/usr/bin/env python3
"""mut_recheck.py [--classes hole,facts,untriaged] [--full] — re-run mutants that were not reported with a failing input
on the first sweep, after the strengthenings. Default: correspondence+search layers (--skip-proofs), in parallel-safe
private scratch; --full: the whole check incl. the proof layer with regenerated facts (sequential, shares lean/Generated).
Appends to mut/recheck.jsonl (latest entry per mutant wins in the report)."""
import argparse, json, os, subprocess, glob, sys, time
V = "/verif"
ENV = dict(os.environ, GOFLAGS="-mod=mod", GOPROXY="off", GOSUMDB="off", GOTOOLCHAIN="local")
ap = argparse.ArgumentParser()
ap.add_argument("--classes", default="hole,facts,untriaged")
ap.add_argument("--full", action="store_true")
ap.add_argument("--owners"); ap.add_argument("--tag", default="0")
a = ap.parse_args()
classes = set(a.classes.split(","))
tri = {}
for tp in sorted(glob.glob(V + "/mut/triage.d/*.json")):
    tri.update(json.load(open(tp)))
todo = []
for sp in sorted(glob.glob(V + "/mut/survivors/*.jsonl")):
    if a.owners and os.path.basename(sp).split(".")[0] not in a.owners.split(","): continue
    for l in open(sp):
        d = json.loads(l)
        c = tri.get(d["key"], {}).get("class", "untriaged")
        if c in classes: d["class"] = c; todo.append(d)
print(len(todo), "mutants to re-run", flush=True)
wt = "/tmp/mut-recheck-wt-" + a.tag
subprocess.run(["git", "-C", "/repo", "worktree", "remove", "--force", wt], capture_output=True)
subprocess.run(["git", "-C", "/repo", "worktree", "add", "--detach", wt, "HEAD"], capture_output=True)
out = open(V + "/mut/recheck.jsonl", "a")   # appended line by line (O_APPEND): several instances may run in parallel
for d in todo:
    src = subprocess.run([V + "/build/mutgen", "-file", "/repo/" + d["file"], "-apply", str(d["id"])], capture_output=True, text=True).stdout
    open(os.path.join(wt, d["file"]), "w").write(src)
    res = dict(file=d["file"], id=d["id"], key=d["key"], checks={}, full=a.full, cls=d["class"])
    for p in d["checks"]:
        env = dict(ENV, VERIF_REPO=wt)
        if not a.full: env.update(VERIF_BUILD="/tmp/mut-recheck-b-" + a.tag, VERIF_OUT="/tmp/mut-recheck-o-" + a.tag)
        else: env.update(VERIF_OUT="/tmp/mut-recheck-o-" + a.tag)
        cmd = ["python3", V + "/check.py", p] + ([] if a.full else ["--skip-proofs"])
        try:
            r = subprocess.run(cmd, cwd=V, env=env, capture_output=True, text=True, timeout=2400)
            lines = (r.stdout + r.stderr).strip().splitlines()
        except subprocess.TimeoutExpired:
            lines = ["timeout"]
        viol = [l for l in lines if l.startswith("VIOLATION")]
        v = "S" if any("no-failing-input-found" not in l for l in viol) else ("K/P" if viol else "pass")
        res["checks"][p] = v; res.setdefault("summary", {})[p] = lines[-1][:160] if lines else ""
        if v == "S": break
    vs = list(res["checks"].values())
    res["status"] = "S" if "S" in vs else ("K" if "K/P" in vs else "survived")
    out.write(json.dumps(res) + "\n"); out.flush()
    print(d["key"], res["status"], flush=True)
    subprocess.run(["git", "checkout", "--", d["file"]], cwd=wt)
subprocess.run(["git", "-C", "/repo", "worktree", "remove", "--force", wt], capture_output=True)
if a.full:
    # restore lean/Generated from the unchanged tree
    subprocess.run(["python3", V + "/check.py", "C10"], cwd=V, capture_output=True)
